pub mod capture;
pub mod driver;
pub mod io;
pub mod model;
pub mod present;
pub mod props;
pub mod selftest;
pub mod tape;
