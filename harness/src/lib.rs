pub mod capture;
pub mod driver;
pub mod fuzzrt;
pub mod gen20;
pub mod gen20rt;
pub mod io;
pub mod model;
pub mod present;
pub mod props;
pub mod selftest;
pub mod tape;
pub mod typed;
pub mod apache;
pub mod alloc;

#[global_allocator]
static GLOBAL: alloc::Counting = alloc::Counting;
