//! Self tests of the reference model against pinned vectors from the
//! specification / the Java test-suite. A failure here is a harness bug
//! (exit 2), never a violation.

use crate::model::*;

pub fn model_self_test() -> Result<(), String> {
	// CRC-64-AVRO vectors (Avro spec / Java SchemaNormalization tests)
	let vectors: &[(&str, i64)] = &[
		("\"null\"", 7195948357588979594),
		("\"boolean\"", -6970731678124411036),
		("{\"name\":\"foo\",\"type\":\"fixed\",\"size\":15}", 1756455273707447556),
		("{\"name\":\"PigValue\",\"type\":\"record\",\"fields\":[{\"name\":\"value\",\"type\":[\"null\",\"int\",\"long\",\"PigValue\"]}]}", -1759257747318642341),
		("hello world", 2906301498937520992),
		("\"int\"", 8247732601305521295),
		("\"string\"", -8142146995180207161),
	];
	for (s, fp) in vectors {
		let got = crc64_avro(s.as_bytes()) as i64;
		if got != *fp {
			return Err(format!("crc64_avro({s}) = {got}, expected {fp}"));
		}
	}
	// zig-zag varints from the specification's table
	for (v, bytes) in [(0i64, vec![0u8]), (-1, vec![1]), (1, vec![2]), (-2, vec![3]), (2, vec![4]), (-64, vec![0x7f]), (64, vec![0x80, 0x01]), (8192, vec![0x80, 0x80, 0x01]), (-8193, vec![0x81, 0x80, 0x01])] {
		let mut out = Vec::new();
		write_long(v, &mut out);
		if out != bytes {
			return Err(format!("write_long({v}) = {out:?}, expected {bytes:?}"));
		}
		let mut d = Dec::new(&bytes);
		if d.long() != Ok(v) {
			return Err(format!("Dec::long({bytes:?}) != {v}"));
		}
	}
	// two's complement
	for (v, b) in [(0i128, vec![0u8]), (1, vec![1]), (-1, vec![0xff]), (127, vec![0x7f]), (128, vec![0, 0x80]), (-128, vec![0x80]), (-129, vec![0xff, 0x7f]), (255, vec![0, 0xff]), (32768, vec![0, 0x80, 0])] {
		if twos_complement_minimal(v) != b {
			return Err(format!("twos_complement_minimal({v}) = {:?}", twos_complement_minimal(v)));
		}
		if from_twos_complement(&b) != Ok(v) {
			return Err(format!("from_twos_complement({b:?})"));
		}
	}
	// PCF of the specification's style of example
	let text = r#"{"type":"record","name":"Node","namespace":"org.x","doc":"d","fields":[{"name":"v","type":{"type":"int","logicalType":"date"},"default":0},{"name":"next","type":["null","Node"]},{"name":"e","type":{"type":"enum","name":"E","symbols":["A","B"]}},{"name":"f","type":{"type":"fixed","name":"other.F","size":4}}]}"#;
	let m = parse_json_schema(text)?;
	let want = r#"{"name":"org.x.Node","type":"record","fields":[{"name":"v","type":"int"},{"name":"next","type":["null","org.x.Node"]},{"name":"e","type":{"name":"org.x.E","type":"enum","symbols":["A","B"]}},{"name":"f","type":{"name":"other.F","type":"fixed","size":4}}]}"#;
	if pcf(&m) != want {
		return Err(format!("pcf mismatch:\n got {}\nwant {}", pcf(&m), want));
	}
	// the spec's own record example encoding: {"a": 27, "b": "foo"} -> 36 06 66 6f 6f
	let m = parse_json_schema(r#"{"type":"record","name":"test","fields":[{"name":"a","type":"long"},{"name":"b","type":"string"}]}"#)?;
	let env = Env::new(&m);
	let v = MValue::Record(vec![MValue::Long(27), MValue::Str("foo".into())]);
	let e = encode_single(&env, &m, &v)?;
	if e != [0x36, 0x06, 0x66, 0x6f, 0x6f] {
		return Err(format!("spec record example encodes to {e:?}"));
	}
	// spec array example: [3, 27] -> 04 06 36 00 ; union ["null","string"]: null -> 00, "a" -> 02 02 61
	let m = parse_json_schema(r#"{"type":"array","items":"long"}"#)?;
	let env = Env::new(&m);
	let e = encode_single(&env, &m, &MValue::Array(vec![MValue::Long(3), MValue::Long(27)]))?;
	if e != [0x04, 0x06, 0x36, 0x00] {
		return Err(format!("spec array example encodes to {e:?}"));
	}
	let m = parse_json_schema(r#"["null","string"]"#)?;
	let env = Env::new(&m);
	if encode_single(&env, &m, &MValue::Union(1, Box::new(MValue::Str("a".into()))))? != [0x02, 0x02, 0x61] {
		return Err("spec union example".into());
	}
	Ok(())
}
