//! Presentations: explicit trees of serde data-model calls (`P`), built from a
//! model (schema, value) under tape-chosen styles, and serialised dumbly.

use crate::model::*;
use crate::tape::Tape;
use serde::ser::{Serialize, SerializeMap, SerializeSeq, SerializeStruct, SerializeStructVariant, SerializeTuple, SerializeTupleStruct, SerializeTupleVariant, Serializer};
use std::collections::HashMap;
use std::sync::Mutex;

/// Intern a string as &'static str (bounded set: names come from small alphabets)
pub fn intern(s: &str) -> &'static str {
	static TABLE: Mutex<Option<HashMap<String, &'static str>>> = Mutex::new(None);
	let mut g = TABLE.lock().unwrap();
	let t = g.get_or_insert_with(HashMap::new);
	if let Some(v) = t.get(s) {
		return v;
	}
	let leaked: &'static str = Box::leak(s.to_string().into_boxed_str());
	t.insert(s.to_string(), leaked);
	leaked
}

#[derive(Clone, Debug, PartialEq)]
pub enum P {
	Unit,
	None,
	Some(Box<P>),
	Bool(bool),
	I8(i8),
	I16(i16),
	I32(i32),
	I64(i64),
	I128(i128),
	U8(u8),
	U16(u16),
	U32(u32),
	U64(u64),
	U128(u128),
	F32(u32),
	F64(u64),
	Char(char),
	Str(String),
	Bytes(Vec<u8>),
	UnitStruct(&'static str),
	UnitVariant(&'static str, u32, &'static str),
	NewtypeStruct(&'static str, Box<P>),
	NewtypeVariant(&'static str, u32, &'static str, Box<P>),
	Seq(Option<usize>, Vec<P>),
	Tuple(Vec<P>),
	TupleStruct(&'static str, Vec<P>),
	TupleVariant(&'static str, u32, &'static str, Vec<P>),
	/// (len hint, entries, use serialize_entry instead of key-then-value)
	Map(Option<usize>, Vec<(P, P)>, bool),
	Struct(&'static str, Vec<(&'static str, P)>),
	StructVariant(&'static str, u32, &'static str, Vec<(&'static str, P)>),
}

impl Serialize for P {
	fn serialize<S: Serializer>(&self, s: S) -> Result<S::Ok, S::Error> {
		match self {
			P::Unit => s.serialize_unit(),
			P::None => s.serialize_none(),
			P::Some(p) => s.serialize_some(&**p),
			P::Bool(b) => s.serialize_bool(*b),
			P::I8(v) => s.serialize_i8(*v),
			P::I16(v) => s.serialize_i16(*v),
			P::I32(v) => s.serialize_i32(*v),
			P::I64(v) => s.serialize_i64(*v),
			P::I128(v) => s.serialize_i128(*v),
			P::U8(v) => s.serialize_u8(*v),
			P::U16(v) => s.serialize_u16(*v),
			P::U32(v) => s.serialize_u32(*v),
			P::U64(v) => s.serialize_u64(*v),
			P::U128(v) => s.serialize_u128(*v),
			P::F32(b) => s.serialize_f32(f32::from_bits(*b)),
			P::F64(b) => s.serialize_f64(f64::from_bits(*b)),
			P::Char(c) => s.serialize_char(*c),
			P::Str(v) => s.serialize_str(v),
			P::Bytes(v) => s.serialize_bytes(v),
			P::UnitStruct(n) => s.serialize_unit_struct(n),
			P::UnitVariant(n, i, v) => s.serialize_unit_variant(n, *i, v),
			P::NewtypeStruct(n, p) => s.serialize_newtype_struct(n, &**p),
			P::NewtypeVariant(n, i, v, p) => s.serialize_newtype_variant(n, *i, v, &**p),
			P::Seq(len, items) => {
				let mut q = s.serialize_seq(*len)?;
				for it in items {
					q.serialize_element(it)?;
				}
				q.end()
			}
			P::Tuple(items) => {
				let mut q = s.serialize_tuple(items.len())?;
				for it in items {
					q.serialize_element(it)?;
				}
				q.end()
			}
			P::TupleStruct(n, items) => {
				let mut q = s.serialize_tuple_struct(n, items.len())?;
				for it in items {
					q.serialize_field(it)?;
				}
				q.end()
			}
			P::TupleVariant(n, i, v, items) => {
				let mut q = s.serialize_tuple_variant(n, *i, v, items.len())?;
				for it in items {
					q.serialize_field(it)?;
				}
				q.end()
			}
			P::Map(len, entries, use_entry) => {
				let mut m = s.serialize_map(*len)?;
				for (k, v) in entries {
					if *use_entry {
						m.serialize_entry(k, v)?;
					} else {
						m.serialize_key(k)?;
						m.serialize_value(v)?;
					}
				}
				m.end()
			}
			P::Struct(n, fields) => {
				let mut m = s.serialize_struct(n, fields.len())?;
				for (k, v) in fields {
					m.serialize_field(k, v)?;
				}
				m.end()
			}
			P::StructVariant(n, i, v, fields) => {
				let mut m = s.serialize_struct_variant(n, *i, v, fields.len())?;
				for (k, v) in fields {
					m.serialize_field(k, v)?;
				}
				m.end()
			}
		}
	}
}

/// What kind of presentation space to draw from
#[derive(Clone, Copy, PartialEq, Eq, Debug)]
pub enum Mode {
	/// only forms the C01 statement promises to work: natural Rust shapes, union
	/// branches by name, or by type where the conservative predicate says unambiguous
	Promised,
	/// every form the serializer documents/accepts for a conforming value
	Accepted,
}

pub struct Presenter<'t, 'd, 'e> {
	pub tape: &'t mut Tape<'d>,
	pub env: &'e Env<'e>,
	pub mode: Mode,
	/// labels: "<kind>/<serde call>" cells used
	pub cells: Vec<String>,
	pub needs_slow_seq_bytes: bool,
	pub type_directed_unions: usize,
	pub named_unions: usize,
	pub omitted_fields: usize,
	pub reordered_records: usize,
	/// C02: apply one non-conforming mutation at the node with this visit index
	pub mutate_at: Option<usize>,
	pub node_counter: usize,
	/// description of the mutation applied, if any
	pub mutation: Option<String>,
	/// C13: force order / omission of the n-th record visited
	pub forced: Option<ForcedRecord>,
	pub record_counter: usize,
	/// (node index, number of fields, positions of nullable fields holding null) per record visited
	pub records_seen: Vec<(usize, usize, Vec<usize>)>,
}

#[derive(Clone, Debug)]
pub struct ForcedRecord {
	pub target: usize,
	/// presentation order: indices into the schema's field list
	pub order: Vec<usize>,
	/// omit these schema field indices (only honoured for nullable fields holding null)
	pub omit: Vec<usize>,
	/// 0 struct, 1 map with serialize_entry, 2 map with key-then-value
	pub style: u8,
}

pub fn decimal_to_string(unscaled: i128, scale: u32) -> String {
	let neg = unscaled < 0;
	let mut digits = unscaled.unsigned_abs().to_string();
	let scale = scale as usize;
	if scale > 0 {
		while digits.len() <= scale {
			digits.insert(0, '0');
		}
		let cut = digits.len() - scale;
		digits.insert(cut, '.');
	}
	if neg {
		digits.insert(0, '-');
	}
	digits
}

/// The serde call the natural Rust type of a branch makes; used by the
/// harness-side conservative "unambiguous by type" predicate.
fn natural_call(k: &Kind) -> Option<&'static str> {
	Some(match k {
		Kind::Null => "unit",
		Kind::Boolean => "bool",
		Kind::Int | Kind::Date | Kind::TimeMillis => "i32",
		Kind::Long | Kind::TimeMicros | Kind::TimestampMillis | Kind::TimestampMicros => "i64",
		Kind::Float => "f32",
		Kind::Double => "f64",
		Kind::String | Kind::Uuid => "str",
		Kind::Bytes | Kind::Fixed(_) => "bytes",
		Kind::Enum => "unit_variant",
		Kind::Array => "seq",
		Kind::Record | Kind::Map => "struct|map",
		Kind::Union => return None,
		Kind::DecimalBytes { .. } | Kind::DecimalFixed { .. } | Kind::BigDecimal | Kind::Duration => return None,
	})
}

/// A value of branch `chosen`, presented through the serde call of its natural Rust type,
/// designates that branch by its type when no other branch has the same natural call
/// (`String` for `[enumA, enumB, "string"]` is the string; `i64` for `[date, time-millis,
/// "long"]` is the long; but `i32` for `[int, date]` or a str for `[uuid, string]` is
/// ambiguous). Branches without a natural Rust type (decimals, duration) never claim a call.
pub fn union_unambiguous_by_type(env: &Env, branches: &[MSchema], chosen: usize) -> bool {
	let Some(c) = natural_call(&env.kind(&branches[chosen])) else { return false };
	for (j, b) in branches.iter().enumerate() {
		if j != chosen && natural_call(&env.kind(b)) == Some(c) {
			return false;
		}
	}
	// A struct is looked up by its Rust name before its type is considered; a derive
	// names the struct after the record's simple name. If that simple name is also
	// the selecting name of another branch, the presentation is not "by type".
	// (every name that can select a branch counts: its branch name, the simple name of a
	// namespaced type, and `Decimal` for a decimal of fixed representation)
	let names: Vec<Vec<String>> = branches
		.iter()
		.map(|b| {
			let n = branch_name(env, b);
			let mut v = vec![split_fullname(&n).1.to_string(), n];
			if matches!(env.kind(b), Kind::DecimalFixed { .. } | Kind::DecimalBytes { .. }) {
				v.push("Decimal".to_string());
			}
			v
		})
		.collect();
	for (i, b) in branches.iter().enumerate() {
		if let Some(full) = env.resolve(b).fullname() {
			let simple = split_fullname(full).1;
			for (j, ns) in names.iter().enumerate() {
				if i != j && ns.iter().any(|n| n == simple) {
					return false;
				}
			}
		}
	}
	true
}

impl<'t, 'd, 'e> Presenter<'t, 'd, 'e> {
	pub fn new(tape: &'t mut Tape<'d>, env: &'e Env<'e>, mode: Mode) -> Self {
		Presenter { tape, env, mode, cells: Vec::new(), needs_slow_seq_bytes: false, type_directed_unions: 0, named_unions: 0, omitted_fields: 0, reordered_records: 0, mutate_at: None, node_counter: 0, mutation: None, forced: None, record_counter: 0, records_seen: Vec::new() }
	}

	fn cell(&mut self, kind: &str, call: &str) {
		self.cells.push(format!("{kind}/{call}"));
	}

	fn present_integer(&mut self, kindname: &str, v: i128) -> P {
		// any integer width that holds the value
		let mut opts: Vec<P> = Vec::new();
		if let Ok(x) = i8::try_from(v) {
			opts.push(P::I8(x));
		}
		if let Ok(x) = i16::try_from(v) {
			opts.push(P::I16(x));
		}
		if let Ok(x) = i32::try_from(v) {
			opts.push(P::I32(x));
		}
		if let Ok(x) = i64::try_from(v) {
			opts.push(P::I64(x));
		}
		opts.push(P::I128(v));
		if let Ok(x) = u8::try_from(v) {
			opts.push(P::U8(x));
		}
		if let Ok(x) = u16::try_from(v) {
			opts.push(P::U16(x));
		}
		if let Ok(x) = u32::try_from(v) {
			opts.push(P::U32(x));
		}
		if let Ok(x) = u64::try_from(v) {
			opts.push(P::U64(x));
		}
		if let Ok(x) = u128::try_from(v) {
			opts.push(P::U128(x));
		}
		let p = self.tape.pick(&opts).clone();
		let call = match &p {
			P::I8(_) => "i8",
			P::I16(_) => "i16",
			P::I32(_) => "i32",
			P::I64(_) => "i64",
			P::I128(_) => "i128",
			P::U8(_) => "u8",
			P::U16(_) => "u16",
			P::U32(_) => "u32",
			P::U64(_) => "u64",
			_ => "u128",
		};
		self.cell(kindname, call);
		p
	}

	/// Present `v` under `s`. `in_union_by_type`: the node is the payload of a
	/// type-directed union selection, so it must use the natural call of its kind.
	pub fn present(&mut self, s: &MSchema, v: &MValue) -> P {
		self.present_inner(s, v, false)
	}

	fn present_inner(&mut self, s: &MSchema, v: &MValue, natural_only: bool) -> P {
		let env = self.env;
		let r = env.resolve(s);
		let k = kind_of_resolved(r);
		let accepted = self.mode == Mode::Accepted && !natural_only;
		let my_idx = self.node_counter;
		self.node_counter += 1;
		if self.mutate_at == Some(my_idx) && self.mutation.is_none() && !natural_only {
			if let Some((p, what)) = self.try_mutate(r, &k, v) {
				self.mutation = Some(what);
				return p;
			}
		}
		match (&k, v) {
			(Kind::Null, MValue::Null) => {
				if natural_only {
					self.cell("null", "unit");
					return P::Unit;
				}
				match self.tape.below(if accepted { 4 } else { 2 }) {
					0 => {
						self.cell("null", "unit");
						P::Unit
					}
					1 => {
						self.cell("null", "none");
						P::None
					}
					2 => {
						self.cell("null", "unit_struct");
						P::UnitStruct("AnyName")
					}
					_ => {
						self.cell("null", "unit_variant");
						P::UnitVariant("E", 0, "Null")
					}
				}
			}
			(Kind::Boolean, MValue::Bool(b)) => {
				self.cell("boolean", "bool");
				P::Bool(*b)
			}
			(Kind::Int | Kind::Date | Kind::TimeMillis, MValue::Int(i)) => {
				if natural_only {
					self.cell("int", "i32");
					P::I32(*i)
				} else if self.mode == Mode::Promised && self.tape.below(3) > 0 {
					self.cell("int", "i32");
					P::I32(*i)
				} else {
					self.present_integer("int", *i as i128)
				}
			}
			(Kind::Long | Kind::TimeMicros | Kind::TimestampMillis | Kind::TimestampMicros, MValue::Long(i)) => {
				if natural_only {
					self.cell("long", "i64");
					P::I64(*i)
				} else if self.mode == Mode::Promised && self.tape.below(3) > 0 {
					self.cell("long", "i64");
					P::I64(*i)
				} else {
					self.present_integer("long", *i as i128)
				}
			}
			(Kind::Float, MValue::Float(bits)) => {
				self.cell("float", "f32");
				P::F32(*bits)
			}
			(Kind::Double, MValue::Double(bits)) => {
				self.cell("double", "f64");
				P::F64(*bits)
			}
			(Kind::Bytes, MValue::Bytes(b)) => {
				let n = if natural_only { 0 } else { self.tape.below(if accepted { 5 } else { 1 }) };
				match n {
					0 => {
						self.cell("bytes", "bytes");
						P::Bytes(b.clone())
					}
					1 => match std::str::from_utf8(b) {
						Ok(st) => {
							self.cell("bytes", "str");
							P::Str(st.to_string())
						}
						Err(_) => {
							self.cell("bytes", "bytes");
							P::Bytes(b.clone())
						}
					},
					2 => {
						self.needs_slow_seq_bytes = true;
						self.cell("bytes", "seq(None)");
						P::Seq(None, b.iter().map(|x| P::U8(*x)).collect())
					}
					3 => {
						self.needs_slow_seq_bytes = true;
						self.cell("bytes", "seq(len)");
						let items = b.iter().map(|x| if self.tape.bool() { P::U8(*x) } else { P::I64(*x as i64) }).collect();
						P::Seq(Some(b.len()), items)
					}
					_ => {
						self.needs_slow_seq_bytes = true;
						self.cell("bytes", "tuple");
						P::Tuple(b.iter().map(|x| P::U16(*x as u16)).collect())
					}
				}
			}
			(Kind::String | Kind::Uuid, MValue::Str(st)) => {
				let kn = if k == Kind::Uuid { "uuid" } else { "string" };
				let n = if natural_only { 0 } else { self.tape.below(if accepted && k == Kind::String { 4 } else { 1 }) };
				match n {
					0 => {
						self.cell(kn, "str");
						P::Str(st.clone())
					}
					1 => {
						self.cell(kn, "bytes");
						P::Bytes(st.as_bytes().to_vec())
					}
					2 => {
						let mut cs = st.chars();
						match (cs.next(), cs.next()) {
							(Some(c), None) => {
								self.cell(kn, "char");
								P::Char(c)
							}
							_ => {
								self.cell(kn, "str");
								P::Str(st.clone())
							}
						}
					}
					_ => {
						if st.len() < 24 {
							self.cell(kn, "unit_struct");
							P::UnitStruct(intern(st))
						} else {
							self.cell(kn, "str");
							P::Str(st.clone())
						}
					}
				}
			}
			(Kind::Array, MValue::Array(items)) => {
				let item_s = match &r.ty {
					MType::Array(i) => &**i,
					_ => unreachable!(),
				};
				let ps: Vec<P> = items.iter().map(|x| self.present_inner(item_s, x, false)).collect();
				let n = if natural_only { 0 } else { self.tape.below(if accepted { 5 } else { 2 }) };
				match n {
					0 => {
						self.cell("array", "seq(len)");
						P::Seq(Some(ps.len()), ps)
					}
					1 => {
						self.cell("array", "seq(None)");
						P::Seq(None, ps)
					}
					2 => {
						self.cell("array", "tuple");
						P::Tuple(ps)
					}
					3 => {
						self.cell("array", "tuple_struct");
						P::TupleStruct("AnyTuple", ps)
					}
					_ => {
						// advertised length smaller than actual: extra elements go to extra blocks
						self.cell("array", "seq(len<actual)");
						let adv = self.tape.below(ps.len() + 1);
						P::Seq(Some(adv), ps)
					}
				}
			}
			(Kind::Map, MValue::Map(entries)) => {
				let item_s = match &r.ty {
					MType::Map(i) => &**i,
					_ => unreachable!(),
				};
				let mut es: Vec<(String, P)> = Vec::new();
				for (key, x) in entries {
					es.push((key.clone(), self.present_inner(item_s, x, false)));
				}
				let short_keys = entries.iter().all(|(k, _)| k.len() < 24);
				let n = if natural_only { 0 } else { self.tape.below(if accepted && short_keys { 5 } else { 3 }) };
				match n {
					0 => {
						self.cell("map", "map(len,entry)");
						P::Map(Some(es.len()), es.into_iter().map(|(k, v)| (P::Str(k), v)).collect(), true)
					}
					1 => {
						self.cell("map", "map(None,kv)");
						P::Map(None, es.into_iter().map(|(k, v)| (P::Str(k), v)).collect(), false)
					}
					2 => {
						self.cell("map", "map(len,kv)");
						P::Map(Some(es.len()), es.into_iter().map(|(k, v)| (P::Str(k), v)).collect(), false)
					}
					3 => {
						self.cell("map", "struct");
						P::Struct("AnyStruct", es.into_iter().map(|(k, v)| (intern(&k), v)).collect())
					}
					_ => {
						self.cell("map", "map(len<actual)");
						let adv = self.tape.below(es.len() + 1);
						P::Map(Some(adv), es.into_iter().map(|(k, v)| (P::Str(k), v)).collect(), true)
					}
				}
			}
			(Kind::Union, MValue::Union(i, inner)) => {
				let bs = match &r.ty {
					MType::Union(bs) => bs,
					_ => unreachable!(),
				};
				let b = &bs[*i];
				let bk = env.kind(b);
				let by_type_ok = union_unambiguous_by_type(env, bs, *i);
				// Option-like: [null, T] / [T, null] presented as None / Some(x)
				if by_type_ok && !natural_only && self.tape.below(3) == 0 {
					self.type_directed_unions += 1;
					if bk == Kind::Null {
						self.cell("union", "none|unit");
						return if self.tape.bool() { P::None } else { P::Unit };
					}
					let p = self.present_inner(b, inner, true);
					self.cell("union", "type-directed");
					return if self.tape.bool() { P::Some(Box::new(p)) } else { p };
				}
				// by name
				self.named_unions += 1;
				let bname = intern(&branch_name(env, b));
				let payload_is_struct = matches!(bk, Kind::Record | Kind::Map | Kind::Duration);
				let payload_is_seq = matches!(bk, Kind::Array | Kind::Duration);
				let n = self.tape.below(5);
				if bk == Kind::Null {
					// null branch: by name as a newtype variant carrying unit; a bare unit /
					// None is type-directed and always unambiguous (only `null` accepts it).
					// (A *unit variant* named "Null" is deliberately not used: unit variants
					// are type-directed in the crate and documented to coerce to strings.)
					return match n % 3 {
						0 => {
							self.cell("union", "newtype_variant(Null)");
							P::NewtypeVariant("U", *i as u32, "Null", Box::new(P::Unit))
						}
						1 => {
							self.cell("union", "none");
							P::None
						}
						_ => {
							self.cell("union", "unit");
							P::Unit
						}
					};
				}
				match n {
					0 | 1 => {
						self.cell("union", "newtype_variant");
						let p = self.present_inner(b, inner, false);
						P::NewtypeVariant("U", *i as u32, bname, Box::new(p))
					}
					2 => {
						self.cell("union", "newtype_struct");
						let p = self.present_inner(b, inner, false);
						P::NewtypeStruct(bname, Box::new(p))
					}
					3 if payload_is_struct => {
						// struct variant / named struct carrying the branch name
						let p = self.present_inner(b, inner, false);
						// drawn unconditionally: tape consumption must not depend on the child's form
						let as_variant = self.tape.bool();
						match p {
							P::Struct(_, fields) => {
								if as_variant {
									self.cell("union", "struct_variant");
									P::StructVariant("U", *i as u32, bname, fields)
								} else {
									self.cell("union", "struct(named)");
									P::Struct(bname, fields)
								}
							}
							other => {
								self.cell("union", "newtype_variant");
								P::NewtypeVariant("U", *i as u32, bname, Box::new(other))
							}
						}
					}
					4 if payload_is_seq => {
						let p = self.present_inner(b, inner, false);
						match p {
							P::Tuple(items) => {
								// tuple variant advertises exact length
								self.cell("union", "tuple_variant");
								P::TupleVariant("U", *i as u32, bname, items)
							}
							other => {
								self.cell("union", "newtype_variant");
								P::NewtypeVariant("U", *i as u32, bname, Box::new(other))
							}
						}
					}
					_ => {
						self.cell("union", "newtype_variant");
						let p = self.present_inner(b, inner, false);
						P::NewtypeVariant("U", *i as u32, bname, Box::new(p))
					}
				}
			}
			(Kind::Record, MValue::Record(vals)) => {
				let (rname, fields) = match &r.ty {
					MType::Record { name, fields } => (name, fields),
					_ => unreachable!(),
				};
				let mut fps: Vec<(&'static str, P, bool)> = Vec::new();
				for ((fname, fs), fv) in fields.iter().zip(vals) {
					let p = self.present_inner(fs, fv, false);
					// nullable field holding null may be omitted
					let nullable_null = match (env.kind(fs), fv) {
						(Kind::Null, _) => true,
						(Kind::Union, MValue::Union(_, inner)) => matches!(**inner, MValue::Null),
						_ => false,
					};
					fps.push((intern(fname), p, nullable_null));
				}
				let rec_idx = self.record_counter;
				self.record_counter += 1;
				self.records_seen.push((my_idx, fps.len(), fps.iter().enumerate().filter(|(_, f)| f.2).map(|(i, _)| i).collect()));
				let nf = fps.len();
				// All random choices are drawn first, in a way that does not depend on
				// whether this record is the forced one (C13 compares bytes across runs that
				// differ only in the forced record's order).
				let omit_allowed = !natural_only;
				let mut omit_drawn: Vec<usize> = Vec::new();
				for (i, (_, _, nn)) in fps.iter().enumerate() {
					if *nn && omit_allowed && self.tape.chance(80) {
						omit_drawn.push(i);
					}
				}
				let mut order_drawn: Vec<usize> = (0..nf).collect();
				if !natural_only && nf > 1 && self.tape.chance(110) {
					for i in (1..nf).rev() {
						let j = self.tape.below(i + 1);
						order_drawn.swap(i, j);
					}
				}
				let style_drawn = if natural_only { 0 } else { self.tape.below(4) };
				let (order, omit, style) = match &self.forced {
					Some(fr) if fr.target == rec_idx && fr.order.len() == nf => (fr.order.clone(), fr.omit.clone(), match fr.style {
						0 => 0,
						1 => 2,
						_ => 3,
					}),
					_ => (order_drawn, omit_drawn, style_drawn),
				};
				let mut out: Vec<(&'static str, P)> = Vec::new();
				for &i in &order {
					let (n, p, nn) = &fps[i];
					if *nn && omit.contains(&i) {
						self.omitted_fields += 1;
						continue;
					}
					out.push((*n, p.clone()));
				}
				if order.iter().enumerate().any(|(a, b)| a != *b) {
					self.reordered_records += 1;
				}
				// the struct name is irrelevant outside unions: use the simple name (what a
				// derive would give)
				let sname = intern(split_fullname(rname).1);
				match style {
					0 | 1 => {
						self.cell("record", "struct");
						P::Struct(sname, out)
					}
					2 => {
						self.cell("record", "map(entry)");
						P::Map(Some(out.len()), out.into_iter().map(|(k, v)| (P::Str(k.to_string()), v)).collect(), true)
					}
					_ => {
						self.cell("record", "map(kv)");
						P::Map(None, out.into_iter().map(|(k, v)| (P::Str(k.to_string()), v)).collect(), false)
					}
				}
			}
			(Kind::Enum, MValue::Enum(i)) => {
				let symbols = match &r.ty {
					MType::Enum { symbols, .. } => symbols,
					_ => unreachable!(),
				};
				let sym = intern(&symbols[*i]);
				let n = if natural_only { 0 } else { self.tape.below(if accepted { 5 } else { 2 }) };
				match n {
					0 => {
						self.cell("enum", "unit_variant");
						P::UnitVariant("E", *i as u32, sym)
					}
					1 => {
						self.cell("enum", "str");
						P::Str(sym.to_string())
					}
					2 => {
						self.cell("enum", "unit_struct");
						P::UnitStruct(sym)
					}
					3 => self.present_integer("enum", *i as i128),
					_ => {
						// variant_index deliberately different from the schema index: the
						// symbol name is what identifies the value
						self.cell("enum", "unit_variant(idx!=)");
						P::UnitVariant("E", 77, sym)
					}
				}
			}
			(Kind::Fixed(_), MValue::Fixed(b)) => {
				let n = if natural_only { 0 } else { self.tape.below(if accepted { 4 } else { 1 }) };
				match n {
					0 => {
						self.cell("fixed", "bytes");
						P::Bytes(b.clone())
					}
					1 => match std::str::from_utf8(b) {
						Ok(st) => {
							self.cell("fixed", "str");
							P::Str(st.to_string())
						}
						Err(_) => {
							self.cell("fixed", "bytes");
							P::Bytes(b.clone())
						}
					},
					2 => {
						self.needs_slow_seq_bytes = true;
						self.cell("fixed", "seq(None)");
						P::Seq(None, b.iter().map(|x| P::U8(*x)).collect())
					}
					_ => {
						self.needs_slow_seq_bytes = true;
						self.cell("fixed", "tuple");
						P::Tuple(b.iter().map(|x| P::U8(*x)).collect())
					}
				}
			}
			(Kind::DecimalBytes { scale } | Kind::DecimalFixed { scale, .. }, MValue::Decimal(u)) => {
				let kn = if matches!(k, Kind::DecimalBytes { .. }) { "decimal-bytes" } else { "decimal-fixed" };
				// integer presentation only when the value is integral
				let pow = 10i128.checked_pow(*scale);
				let integral = pow.and_then(|p| if u % p == 0 { Some(u / p) } else { None });
				if accepted && integral.is_some() && self.tape.below(3) == 0 {
					return self.present_integer(kn, integral.unwrap());
				}
				self.cell(kn, "str");
				P::Str(decimal_to_string(*u, *scale))
			}
			(Kind::BigDecimal, MValue::BigDecimal { unscaled, scale }) => {
				if accepted && *scale == 0 && self.tape.below(3) == 0 {
					return self.present_integer("big-decimal", *unscaled);
				}
				self.cell("big-decimal", "str");
				P::Str(decimal_to_string(*unscaled, *scale))
			}
			(Kind::Duration, MValue::Duration(m, d, ms)) => {
				let n = if natural_only { 0 } else { self.tape.below(6) };
				let names = ["months", "days", "milliseconds"];
				let vals = [*m, *d, *ms];
				match n {
					0 => {
						self.cell("duration", "tuple");
						P::Tuple(vals.iter().map(|x| P::U32(*x)).collect())
					}
					1 => {
						self.cell("duration", "struct");
						let mut order = [0usize, 1, 2];
						for i in (1..3).rev() {
							let j = self.tape.below(i + 1);
							order.swap(i, j);
						}
						P::Struct("Duration", order.iter().map(|&i| (names[i], P::U32(vals[i]))).collect())
					}
					2 => {
						self.cell("duration", "map");
						let use_entry = self.tape.bool();
						P::Map(Some(3), (0..3).map(|i| (P::Str(names[i].to_string()), P::U32(vals[i]))).collect(), use_entry)
					}
					3 => {
						self.cell("duration", "bytes");
						let mut b = Vec::new();
						for x in vals {
							b.extend_from_slice(&x.to_le_bytes());
						}
						P::Bytes(b)
					}
					4 => {
						self.cell("duration", "seq(None)");
						P::Seq(None, vals.iter().map(|x| P::U32(*x)).collect())
					}
					_ => {
						self.cell("duration", "tuple_struct");
						P::TupleStruct("D", vals.iter().map(|x| P::U32(*x)).collect())
					}
				}
			}
			(k, v) => panic!("model: presenter given non-conforming value {v:?} for {k:?}"),
		}
	}
}

impl<'t, 'd, 'e> Presenter<'t, 'd, 'e> {
	/// A presentation of a value the schema node cannot represent. The statement of
	/// C02 lists the classes; each must make the whole serialization fail.
	fn try_mutate(&mut self, r: &MSchema, k: &Kind, v: &MValue) -> Option<(P, String)> {
		let env = self.env;
		match (k, v) {
			(Kind::Int | Kind::Date | Kind::TimeMillis, _) => {
				let p = match self.tape.below(5) {
					0 => P::I64(i32::MAX as i64 + 1),
					1 => P::I64(i32::MIN as i64 - 1),
					2 => P::U32(i32::MAX as u32 + 1),
					3 => P::I128(i128::MAX),
					_ => P::U64(u64::MAX),
				};
				Some((p, "int-out-of-range".into()))
			}
			(Kind::Long | Kind::TimeMicros | Kind::TimestampMillis | Kind::TimestampMicros, _) => {
				let p = match self.tape.below(4) {
					0 => P::U64(i64::MAX as u64 + 1),
					1 => P::I128(i64::MIN as i128 - 1),
					2 => P::U128(u128::MAX),
					_ => P::I128(i64::MAX as i128 + 1),
				};
				Some((p, "long-out-of-range".into()))
			}
			(Kind::Enum, _) => {
				let n = match &r.ty {
					MType::Enum { symbols, .. } => symbols.len(),
					_ => unreachable!(),
				};
				Some(match self.tape.below(6) {
					0 => (P::Str("NOT_A_SYMBOL".into()), "enum-unknown-symbol/str".into()),
					1 => (P::UnitVariant("E", 0, "NOT_A_SYMBOL"), "enum-unknown-symbol/unit_variant".into()),
					2 => (P::UnitStruct("NOT_A_SYMBOL"), "enum-unknown-symbol/unit_struct".into()),
					3 => (P::U32(n as u32), "enum-index-out-of-range/integer".into()),
					4 => (P::I64(-1), "enum-index-out-of-range/integer".into()),
					_ => (P::U64(n as u64 + 1000), "enum-index-out-of-range/integer".into()),
				})
			}
			(Kind::Bytes, MValue::Bytes(b)) => {
				// a sequence presented for bytes with one element that is not a byte
				self.needs_slow_seq_bytes = true;
				let mut items: Vec<P> = b.iter().take(40).map(|x| P::U8(*x)).collect();
				let at = self.tape.below(items.len() + 1);
				items.insert(at, if self.tape.bool() { P::U16(300) } else { P::I8(-1) });
				let len = if self.tape.bool() { None } else { Some(items.len()) };
				Some((P::Seq(len, items), "bytes-seq-element-not-a-byte".into()))
			}
			(Kind::String, _) => Some((P::Bytes(self.tape.pick(&[vec![0xffu8], vec![b'a', 0x80], vec![0xc3], vec![0xed, 0xa0, 0x80], vec![0xf8, 0x88, 0x80, 0x80, 0x80]]).clone()), "string-not-utf8/bytes".into())),
			(Kind::Fixed(size), MValue::Fixed(b)) => {
				let mut wrong = b.clone();
				if self.tape.bool() || *size == 0 {
					wrong.push(0x41);
				} else {
					wrong.pop();
				}
				Some(match self.tape.below(3) {
					0 => (P::Bytes(wrong), "fixed-wrong-length/bytes".into()),
					// (for half of the values: a str with exactly `size` characters but one byte more)
					1 if *size >= 1 && b.first().map_or(false, |x| x % 2 == 1) => (P::Str(std::iter::once('\u{e9}').chain(std::iter::repeat('a').take(*size - 1)).collect()), "fixed-wrong-length/str-char-count-equals-size".into()),
					1 => (P::Str(std::iter::repeat('a').take(wrong.len()).collect()), "fixed-wrong-length/str".into()),
					_ => {
						self.needs_slow_seq_bytes = true;
						(P::Seq(None, wrong.iter().map(|x| P::U8(*x)).collect()), "fixed-wrong-length/seq".into())
					}
				})
			}
			(Kind::Duration, MValue::Duration(m, d, ms)) => Some(match self.tape.below(6) {
				0 => (P::Bytes(vec![0; 11]), "duration-wrong-length/bytes".into()),
				1 => (P::Bytes(vec![0; 13]), "duration-wrong-length/bytes".into()),
				2 => (P::Tuple(vec![P::U32(*m), P::U32(*d)]), "duration-wrong-length/tuple".into()),
				3 => (P::Seq(None, vec![P::U32(*m), P::U32(*d), P::U32(*ms), P::U32(0)]), "duration-wrong-length/seq".into()),
				4 => (P::Struct("D", vec![("months", P::U32(*m)), ("days", P::U32(*d)), ("months", P::U32(*ms))]), "duration-field-twice".into()),
				_ => (P::Map(None, vec![(P::Str("months".into()), P::U32(*m)), (P::Str("days".into()), P::U32(*d))], true), "duration-missing-field".into()),
			}),
			(Kind::DecimalBytes { scale }, _) | (Kind::DecimalFixed { scale, .. }, _) if *scale >= 1 && *scale <= 9 && (matches!(k, Kind::DecimalBytes { .. }) || self.tape.bool()) => {
				// an integer literal whose own mantissa fits 96 bits but which, expressed at the schema's
				// scale, does not: beyond the documented limits, cannot be represented
				let pow = 10u128.pow(*scale);
				let lo = (1u128 << 96) / pow + 1;
				let m = lo + (self.tape.u64() as u128) % ((1u128 << 96) - lo);
				let neg = self.tape.bool();
				Some((P::Str(format!("{}{m}", if neg { "-" } else { "" })), "decimal-exceeds-96-bit-mantissa-at-schema-scale/str".into()))
			}
			(Kind::DecimalFixed { scale, size }, _) if *size < 16 => {
				// a number that needs more than `size` bytes
				let bits = 8 * *size as u32;
				let too_big: i128 = if bits == 0 { 1 } else { 1i128 << (bits - 1) };
				let u = match self.tape.below(3) {
					0 => too_big,
					1 => -too_big - 1,
					_ => too_big.saturating_mul(3),
				};
				if u.unsigned_abs() >= (1u128 << 96) {
					return None;
				}
				let pow = 10i128.checked_pow(*scale)?;
				if self.tape.bool() && u % pow == 0 && *scale == 0 {
					Some((P::I128(u), "decimal-does-not-fit-fixed/integer".into()))
				} else {
					Some((P::Str(decimal_to_string(u, *scale)), "decimal-does-not-fit-fixed/str".into()))
				}
			}
			(Kind::Record, MValue::Record(vals)) => {
				let fields = match &r.ty {
					MType::Record { fields, .. } => fields,
					_ => unreachable!(),
				};
				let mut out: Vec<(&'static str, P)> = Vec::new();
				for ((fname, fs), fv) in fields.iter().zip(vals) {
					let p = self.present_inner(fs, fv, false);
					out.push((intern(fname), p));
				}
				let non_nullable: Vec<usize> = fields
					.iter()
					.enumerate()
					.filter(|(_, (_, fs))| match env.kind(fs) {
						Kind::Null => false,
						Kind::Union => match &env.resolve(fs).ty {
							MType::Union(bs) => !bs.iter().any(|b| env.kind(b) == Kind::Null),
							_ => true,
						},
						_ => true,
					})
					.map(|(i, _)| i)
					.collect();
				let what;
				match self.tape.below(3) {
					0 if !non_nullable.is_empty() => {
						let i = *self.tape.pick(&non_nullable);
						out.remove(i);
						what = "record-missing-required-field";
					}
					1 if !out.is_empty() => {
						let i = self.tape.below(out.len());
						let dup = out[i].clone();
						let at = self.tape.below(out.len() + 1);
						out.insert(at, dup);
						what = "record-duplicate-field";
					}
					_ => {
						let at = self.tape.below(out.len() + 1);
						out.insert(at, ("no_such_field_zz", P::I32(1)));
						what = "record-unknown-field";
					}
				}
				// optionally shuffle the rest
				if out.len() > 1 && self.tape.bool() {
					for i in (1..out.len()).rev() {
						let j = self.tape.below(i + 1);
						out.swap(i, j);
					}
				}
				let p = match self.tape.below(3) {
					0 => P::Struct("AnyStruct", out),
					1 => P::Map(Some(out.len()), out.into_iter().map(|(k, v)| (P::Str(k.to_string()), v)).collect(), true),
					_ => P::Map(None, out.into_iter().map(|(k, v)| (P::Str(k.to_string()), v)).collect(), false),
				};
				Some((p, what.into()))
			}
			(Kind::Array, MValue::Array(items)) => {
				let item_s = match &r.ty {
					MType::Array(i) => &**i,
					_ => unreachable!(),
				};
				let ps: Vec<P> = items.iter().map(|x| self.present_inner(item_s, x, false)).collect();
				let adv = ps.len() + 1 + self.tape.below(3);
				Some((P::Seq(Some(adv), ps), "seq-fewer-than-advertised".into()))
			}
			(Kind::Union, MValue::Union(i, inner)) => {
				// type-directed choice among several equally suitable (same-kind) branches
				let bs = match &r.ty {
					MType::Union(bs) => bs,
					_ => unreachable!(),
				};
				let b = env.resolve(&bs[*i]);
				let bk = kind_of_resolved(b);
				// "equally suitable": another branch of the same kind that the presented
				// value conforms to just as well (twin record / enum having the symbol /
				// fixed of the same size)
				let twin = bs.iter().enumerate().any(|(j, o)| {
					if j == *i {
						return false;
					}
					let o = env.resolve(o);
					if o.logical.is_some() || b.logical.is_some() {
						return false;
					}
					match (&b.ty, &o.ty, &**inner) {
						(MType::Record { fields: f1, .. }, MType::Record { fields: f2, .. }, _) => f1 == f2,
						(MType::Enum { .. }, MType::Enum { symbols: s2, .. }, MValue::Enum(si)) => match &b.ty {
							MType::Enum { symbols: s1, .. } => s2.contains(&s1[*si]),
							_ => false,
						},
						(MType::Fixed { size: a, .. }, MType::Fixed { size: c, .. }, _) => a == c,
						_ => false,
					}
				});
				if !twin {
					return None;
				}
				match bk {
					Kind::Record => {
						let p = self.present_inner(&bs[*i], inner, true);
						match p {
							P::Struct(_, fields) => Some((P::Struct("AnyStructNameZz", fields), "union-ambiguous-type-directed/records".into())),
							_ => None,
						}
					}
					Kind::Enum => {
						let p = self.present_inner(&bs[*i], inner, true);
						Some((p, "union-ambiguous-type-directed/enums".into()))
					}
					Kind::Fixed(_) => {
						let p = self.present_inner(&bs[*i], inner, true);
						Some((p, "union-ambiguous-type-directed/fixed".into()))
					}
					_ => None,
				}
			}
			_ => None,
		}
	}
}
