//! C12 Skipping a value consumes exactly the bytes that reading it would.

use super::common::*;
use crate::capture::*;
use crate::driver::Ctx;
use crate::io::ChunkedReader;
use crate::model::*;
use crate::tape::Tape;
use serde::de::DeserializeSeed;
use serde_avro_fast::de::DeserializerState;

pub const RULE: &str = "case = (generated schema, conforming value, tape-chosen block layout incl. negative-count blocks with byte sizes, index n of the sub-tree to ignore); the datum is followed by a sentinel datum; the n-th node (pre-order) is deserialised through IgnoredAny (or, for a union payload, through a unit variant) and everything else through the model-directed capture, from a slice and from a 1..k-byte chunked reader; \
non-trivial = the ignored sub-tree is or contains an array/map encoded with >=2 blocks or a negative-count block, or is a string/bytes/enum/duration/int/long/fixed/decimal node (dedicated skip paths); distinct = hash of (schema JSON, bytes, n)";

pub fn run(tape: &[u8], ctx: &mut Ctx) {
	let mut t = Tape::new(tape);
	let Some(case) = gen_schema_case(&mut t, GenCfg::default(), ctx, "C12") else { return };
	let env = Env::new(&case.schema);
	schema_labels(&case.schema, ctx);
	let value = ValueGen::new(&mut t, &env, ValCfg::default()).gen(&case.schema);
	let mut lt = t.clone();
	let (mut bytes, lstats) = {
		let mut layout = Layout::Tape(&mut lt);
		let mut enc = Encoder::new(&env, &mut layout);
		let mut out = Vec::new();
		if let Err(e) = enc.encode(&case.schema, &value, &mut out) {
			ctx.violation("harness/model-encode", e);
			return;
		}
		(out, enc.stats)
	};
	let mut t = lt;
	let datum_len = bytes.len();
	// sentinel datum after it
	let sentinel: [u8; 5] = [0xfe, 0xdc, 0xba, 0x98, 0x07];
	bytes.extend_from_slice(&sentinel);
	let total = count_nodes_value(&env, &case.schema, &value);
	let n = (t.u16() as usize * total) >> 16;
	let mut counter = 0;
	let mut skipped = None;
	let expected = replace_nth(&env, &case.schema, &value, n, &mut counter, &mut skipped);
	let (sk_kind, sk_val) = skipped.expect("n < total");
	let unit_variant = t.bool();
	let mut cfg = CapCfg::from_tape(&mut t);
	cfg.option_mode = false; // numbering relies on unions being read through deserialize_enum
	ctx.label(format!("skipped-kind:{}", format!("{sk_kind:?}").split(|c| c == ' ' || c == '(' || c == '{').next().unwrap_or("")));
	if lstats.negative_blocks > 0 {
		ctx.label("layout:negative-count");
	}
	if lstats.multi_block > 0 {
		ctx.label("layout:multi-block");
	}
	let dedicated = matches!(sk_kind, Kind::String | Kind::Bytes | Kind::Enum | Kind::Duration | Kind::Int | Kind::Long | Kind::Fixed(_) | Kind::Uuid | Kind::Date | Kind::TimeMillis | Kind::TimeMicros | Kind::TimestampMillis | Kind::TimestampMicros | Kind::DecimalBytes { .. } | Kind::DecimalFixed { .. } | Kind::BigDecimal);
	let container_blocks = matches!(sk_kind, Kind::Array | Kind::Map | Kind::Record | Kind::Union) && (lstats.negative_blocks > 0 || lstats.multi_block > 0) && super::c01::value_has_multi(&MValue::Array(vec![sk_val.clone()]));
	ctx.nontrivial = dedicated || container_blocks;
	ctx.hash_case(&format!("{}|{}|{n}", case.json, hex(&bytes)));
	if ctx.want_sample {
		ctx.sample = Some(serde_json::json!({"schema": trunc(&case.json, 500), "value": trunc(&format!("{value:?}"), 300), "encoding_hex": trunc(&hex(&bytes), 300), "ignored_node_index": n, "ignored_kind": format!("{sk_kind:?}"), "ignored_value": trunc(&format!("{sk_val:?}"), 200), "layout": format!("{lstats:?}")}));
	}
	// slice
	{
		let mut cctx = CapCtx::new(&env, cfg.clone(), Some(&bytes));
		cctx.skip_at = Some(n);
		cctx.skip_union_payload_as_unit_variant = unit_variant;
		let mut st = DeserializerState::from_slice(&bytes, &case.crate_schema);
		let r = cctx.seed(&case.schema).deserialize(st.deserializer());
		let left = {
			use std::io::BufRead;
			let mut rd = st.into_reader();
			rd.fill_buf().map(|b| b.to_vec()).unwrap_or_default()
		};
		match r {
			Ok(v) => {
				if !v.same(&expected) {
					ctx.violation("C12/other-parts-differ/slice", format!("schema {} bytes {} ignoring node {n} ({sk_kind:?}): expected {:?} got {:?}", case.json, hex(&bytes), expected, v));
				}
				if left != sentinel {
					ctx.violation(format!("C12/skip-consumed-wrong-length/slice/{}", kind_word(&sk_kind)), format!("schema {} bytes {} ignoring node {n} ({sk_kind:?} = {:?}): {} bytes left, expected the 5 sentinel bytes (datum is {datum_len} bytes)", case.json, hex(&bytes), sk_val, left.len()));
				}
			}
			Err(e) => ctx.violation(format!("C12/skip-failed/slice/{}", kind_word(&sk_kind)), format!("schema {} bytes {} ignoring node {n} ({sk_kind:?} = {:?}): {e}", case.json, hex(&bytes), sk_val)),
		}
	}
	// reader
	{
		let k = 1 + t.below(9);
		let mut cctx = CapCtx::new(&env, cfg.clone(), None);
		cctx.skip_at = Some(n);
		cctx.skip_union_payload_as_unit_variant = unit_variant;
		let rd = ChunkedReader::uniform(&bytes, k);
		let mut st = DeserializerState::from_reader(rd, &case.crate_schema);
		let r = cctx.seed(&case.schema).deserialize(st.deserializer());
		let rd = st.into_reader().into_inner();
		if rd.over_consumed {
			ctx.violation("C12/bufread-over-consume", format!("schema {} bytes {} ignoring node {n} ({sk_kind:?}) chunk {k}: consume() called with more than fill_buf() exposed", case.json, hex(&bytes)));
		}
		match r {
			Ok(v) => {
				if !v.same(&expected) {
					ctx.violation("C12/other-parts-differ/reader", format!("schema {} bytes {} ignoring node {n} ({sk_kind:?}): expected {:?} got {:?}", case.json, hex(&bytes), expected, v));
				}
				if rd.remaining() != sentinel {
					ctx.violation(format!("C12/skip-consumed-wrong-length/reader/{}", kind_word(&sk_kind)), format!("schema {} bytes {} ignoring node {n} ({sk_kind:?} = {:?}) chunk {k}: {} bytes left, expected 5", case.json, hex(&bytes), sk_val, rd.remaining().len()));
				}
			}
			Err(e) => ctx.violation(format!("C12/skip-failed/reader/{}", kind_word(&sk_kind)), format!("schema {} bytes {} ignoring node {n} ({sk_kind:?} = {:?}) chunk {k}: {e}", case.json, hex(&bytes), sk_val)),
		}
	}
}

fn kind_word(k: &Kind) -> String {
	format!("{k:?}").split(|c: char| !c.is_ascii_alphanumeric()).next().unwrap_or("").to_string()
}
