//! Shared machinery for the container-file properties (C05, C06, C15, C16, C17).

use super::common::*;
use crate::capture::*;
use crate::driver::Ctx;
use crate::model::container::*;
use crate::model::*;
use crate::present::*;
use crate::tape::{Tape, XorShift};
use serde_avro_fast::object_container_file_encoding::{Compression, CompressionLevel, Reader, Writer, WriterBuilder};
use serde_avro_fast::ser::SerializerConfig;

#[derive(Clone, Debug)]
pub enum Item {
	Good(usize),
	/// a non-conforming presentation (index into `bad`)
	Bad(usize),
}

#[derive(Clone, Debug)]
pub enum Op {
	Serialize(Item),
	SerializeAll(Vec<Item>),
	/// push_serialized of the concatenated reference encodings of these values
	Push(Vec<usize>),
	FinishBlock,
}

pub struct Hist {
	pub case: Case,
	pub codec: Codec,
	/// None = CompressionLevel::default()
	pub level: Option<u8>,
	pub approx: u32,
	pub sync: [u8; 16],
	pub values: Vec<MValue>,
	pub presented: Vec<P>,
	pub encoded: Vec<Vec<u8>>,
	pub bad: Vec<(P, String)>,
	pub ops: Vec<Op>,
	pub big: bool,
	pub user_meta: Vec<(String, Vec<u8>)>,
}

pub struct HistCfg {
	pub allow_bad: bool,
	pub allow_big: bool,
	pub max_ops: usize,
	pub codecs: &'static [Codec],
	pub user_meta: bool,
}

pub const BOUNDARY_SIZES: &[usize] = &[8191, 8192, 8193, 16384, 32767, 32768, 32769, 40000, 65535, 65536, 65537, 100_000, 140_000];

pub fn crate_compression(codec: Codec, level: Option<u8>) -> Compression {
	let l = match level {
		None => CompressionLevel::default(),
		Some(n) => CompressionLevel::new(n.max(1)),
	};
	match codec {
		Codec::Null => Compression::Null,
		Codec::Deflate => Compression::Deflate { level: l },
		Codec::Bzip2 => Compression::Bzip2 { level: l },
		Codec::Snappy => Compression::Snappy,
		Codec::Xz => Compression::Xz { level: l },
		Codec::Zstandard => Compression::Zstandard { level: l },
	}
}

pub fn gen_hist(t: &mut Tape, ctx: &mut Ctx, prop: &str, hc: &HistCfg) -> Option<Hist> {
	let big = hc.allow_big && t.chance(40);
	let case = if big {
		// a schema dominated by a bytes payload so that block lengths can be placed exactly
		let schema = if t.bool() { MSchema::plain(MType::Bytes) } else { MSchema::plain(MType::Record { name: "Big".into(), fields: vec![("id".into(), MSchema::plain(MType::Long)), ("payload".into(), MSchema::plain(MType::Bytes))] }) };
		let json = spell_plain(&schema);
		let crate_schema = json.parse().ok()?;
		Case { schema, json, crate_schema }
	} else {
		let mut cfg = GenCfg::default();
		cfg.max_nodes = 20;
		gen_schema_case(t, cfg, ctx, prop)?
	};
	let codec = *t.pick(hc.codecs);
	let level = if t.chance(90) {
		None
	} else {
		Some(match codec {
			// (levels above 9 must be clipped to 9 by the crate; xz -9 reserves ~700 MB per encoder, so rarely)
			Codec::Xz => {
				if t.chance(12) {
					*t.pick(&[9u8, 10, 200, 254])
				} else {
					1 + t.below(6) as u8
				}
			}
			Codec::Zstandard => *t.pick(&[1u8, 3, 9, 15, 19, 22, 100, 254]),
			_ => *t.pick(&[1u8, 2, 5, 9, 10, 200, 254, 255]),
		})
	};
	// xz above 6 and zstd ultra levels need hundreds of MB per encoder
	let level = match (codec, level) {
		(Codec::Xz, Some(l)) if big => Some(l.min(6)),
		(Codec::Zstandard, Some(l)) if l > 19 => Some(if big { 19 } else { l }),
		(c, l) => {
			let _ = c;
			l
		}
	};
	let mut sync = [0u8; 16];
	for b in sync.iter_mut() {
		*b = t.byte();
	}
	let env = Env::new(&case.schema);
	let mut values = Vec::new();
	let mut presented = Vec::new();
	let mut encoded = Vec::new();
	let mut bad: Vec<(P, String)> = Vec::new();
	let mut ops = Vec::new();
	let approx;
	if big {
		approx = *t.pick(&[u32::MAX, 1 << 20, 65536, 32768, 8192]);
		// one block whose uncompressed length lands exactly on a boundary
		let target = *t.pick(BOUNDARY_SIZES);
		let compressible = t.chance(60);
		let seed = t.u32() as u64;
		let nvals = 1 + t.below(3);
		let mut remaining = target;
		for i in 0..nvals {
			let last = i + 1 == nvals;
			let share = if last { remaining } else { remaining / 2 };
			// datum = [id varint (1 byte for small id)] + varint(len) + payload
			let overhead_id = if matches!(case.schema.ty, MType::Record { .. }) { 1 } else { 0 };
			let mut n = share.saturating_sub(overhead_id + 1);
			// adjust for the varint length of n
			for _ in 0..6 {
				let mut tmp = Vec::new();
				write_long(n as i64, &mut tmp);
				let total = overhead_id + tmp.len() + n;
				if total == share || n == 0 {
					break;
				}
				if total > share {
					n = n.saturating_sub(total - share);
				} else {
					n += share - total;
				}
			}
			let payload = if compressible { vec![b'x'; n] } else { XorShift::new(seed + i as u64).fill(n) };
			let v = if overhead_id == 1 { MValue::Record(vec![MValue::Long(i as i64), MValue::Bytes(payload)]) } else { MValue::Bytes(payload) };
			let e = encode_single(&env, &case.schema, &v).ok()?;
			remaining = remaining.saturating_sub(e.len());
			let p = Presenter::new(t, &env, Mode::Promised).present(&case.schema, &v);
			values.push(v);
			presented.push(p);
			encoded.push(e);
		}
		for i in 0..values.len() {
			ops.push(if t.chance(60) { Op::Push(vec![i]) } else { Op::Serialize(Item::Good(i)) });
		}
		if t.bool() {
			ops.push(Op::FinishBlock);
		}
		// sometimes a second block
		if t.chance(80) {
			ops.push(Op::Serialize(Item::Good(0)));
		}
		ctx.label(format!("big:block-len-{target}"));
		ctx.label(if compressible { "big:compressible" } else { "big:incompressible" });
	} else {
		approx = *t.pick(&[0u32, 1, 2, 10, 100, 1000, 4096, 65536]);
		let nvals = 1 + t.small(6);
		let vcfg = ValCfg { max_str: 120, max_coll: 6, max_nodes: 60, ..ValCfg::default() };
		for _ in 0..nvals {
			let v = ValueGen::new(t, &env, vcfg.clone()).gen(&case.schema);
			let e = encode_single(&env, &case.schema, &v).ok()?;
			let p = Presenter::new(t, &env, Mode::Promised).present(&case.schema, &v);
			values.push(v);
			presented.push(p);
			encoded.push(e);
		}
		if hc.allow_bad {
			// non-conforming presentations that really fail on a fresh configuration
			for _ in 0..2 {
				let v = ValueGen::new(t, &env, vcfg.clone()).gen(&case.schema);
				let pick = t.u16() as usize;
				let n_nodes = {
					let mut t2 = t.clone();
					let mut pr = Presenter::new(&mut t2, &env, Mode::Accepted);
					let _ = pr.present(&case.schema, &v);
					pr.node_counter.max(1)
				};
				let mut pr = Presenter::new(t, &env, Mode::Accepted);
				pr.mutate_at = Some((pick * n_nodes) >> 16);
				let p = pr.present(&case.schema, &v);
				if let Some(m) = pr.mutation.clone() {
					let mut sc = SerializerConfig::new(&case.crate_schema);
					sc.allow_slow_sequence_to_bytes();
					if serde_avro_fast::to_datum_vec(&p, &mut sc).is_err() {
						bad.push((p, m));
					}
				}
			}
		}
		let nops = 1 + t.below(hc.max_ops);
		let item = |t: &mut Tape, nbad: usize, nvals: usize| -> Item {
			if nbad > 0 && t.chance(70) {
				Item::Bad(t.below(nbad))
			} else {
				Item::Good(t.below(nvals))
			}
		};
		for _ in 0..nops {
			let op = match t.below(8) {
				0..=3 => Op::Serialize(item(t, bad.len(), values.len())),
				4 => {
					let k = t.small(5);
					Op::SerializeAll((0..k).map(|_| item(t, bad.len(), values.len())).collect())
				}
				5 | 6 => {
					let k = t.small(4);
					Op::Push((0..k).map(|_| t.below(values.len())).collect())
				}
				_ => Op::FinishBlock,
			};
			ops.push(op);
		}
	}
	let mut user_meta = Vec::new();
	if hc.user_meta {
		let n = t.small(4);
		for i in 0..n {
			let k = match t.below(4) {
				0 => format!("k{i}"),
				1 => format!("user.key.{i}"),
				2 => format!("ключ{i}"),
				_ => format!("a{i}vro.not-reserved"),
			};
			let vlen = t.small(20);
			user_meta.push((k, t.bytes(vlen)));
		}
	}
	Some(Hist { case, codec, level, approx, sync, values, presented, encoded, bad, ops, big, user_meta })
}

pub fn hist_outline(h: &Hist) -> String {
	let item = |i: &Item| match i {
		Item::Good(k) => format!("v{k}"),
		Item::Bad(k) => format!("BAD{k}"),
	};
	let mut s = format!("codec={} level={:?} approx_block_size={} ops=[", h.codec.name(), h.level, h.approx);
	for op in &h.ops {
		match op {
			Op::Serialize(i) => s.push_str(&format!("serialize({}) ", item(i))),
			Op::SerializeAll(v) => s.push_str(&format!("serialize_all({}) ", v.iter().map(item).collect::<Vec<_>>().join(","))),
			Op::Push(v) => s.push_str(&format!("push_serialized({}) ", v.iter().map(|k| format!("v{k}")).collect::<Vec<_>>().join(","))),
			Op::FinishBlock => s.push_str("finish_block "),
		}
	}
	s.push(']');
	s
}

pub fn hist_sample(h: &Hist) -> serde_json::Value {
	serde_json::json!({
		"schema": trunc(&h.case.json, 400),
		"history": trunc(&hist_outline(h), 600),
		"value_encoded_lengths": h.encoded.iter().map(|e| e.len()).collect::<Vec<_>>(),
		"non_conforming_items": h.bad.iter().map(|b| b.1.clone()).collect::<Vec<_>>(),
		"user_metadata_keys": h.user_meta.iter().map(|m| m.0.clone()).collect::<Vec<_>>(),
	})
}

/// serde view of user metadata: a map<string, bytes>
pub struct MetaSer<'a>(pub &'a [(String, Vec<u8>)]);
impl serde::Serialize for MetaSer<'_> {
	fn serialize<S: serde::Serializer>(&self, s: S) -> Result<S::Ok, S::Error> {
		use serde::ser::SerializeMap;
		let mut m = s.serialize_map(Some(self.0.len()))?;
		for (k, v) in self.0 {
			m.serialize_entry(k, serde_bytes::Bytes::new(v))?;
		}
		m.end()
	}
}

pub fn build_writer<'c, 's, W: std::io::Write>(cfg: &'c mut SerializerConfig<'s>, h: &Hist, sink: W) -> Result<Writer<'c, 's, W>, String> {
	let b = WriterBuilder::new(cfg).compression(crate_compression(h.codec, h.level)).approx_block_size(h.approx).sync_marker(h.sync);
	if h.user_meta.is_empty() {
		b.build(sink).map_err(|e| e.to_string())
	} else {
		b.build_with_user_metadata(sink, MetaSer(&h.user_meta)).map_err(|e| e.to_string())
	}
}

/// Apply one op; returns per-item outcomes (true = call returned Ok) and pushes
/// the indices of accepted values.
pub fn apply_op<W: std::io::Write>(w: &mut Writer<'_, '_, W>, h: &Hist, op: &Op, accepted: &mut Vec<usize>) -> Result<(), String> {
	match op {
		Op::Serialize(Item::Good(i)) => {
			w.serialize(&h.presented[*i]).map_err(|e| e.to_string())?;
			accepted.push(*i);
			Ok(())
		}
		Op::Serialize(Item::Bad(i)) => match w.serialize(&h.bad[*i].0) {
			Ok(()) => Err(format!("BAD-ACCEPTED: non-conforming value ({}) was accepted", h.bad[*i].1)),
			Err(_) => Ok(()),
		},
		Op::SerializeAll(items) => {
			// serialize_all stops at the first failing element
			let mut upto = Vec::new();
			let mut first_bad = None;
			for it in items {
				match it {
					Item::Good(i) => upto.push(*i),
					Item::Bad(b) => {
						first_bad = Some(*b);
						break;
					}
				}
			}
			let iter = items.iter().map(|it| match it {
				Item::Good(i) => &h.presented[*i],
				Item::Bad(b) => &h.bad[*b].0,
			});
			let r = w.serialize_all(iter);
			match (r, first_bad) {
				(Ok(()), None) => {
					accepted.extend(upto);
					Ok(())
				}
				(Err(_), Some(_)) => {
					accepted.extend(upto);
					Ok(())
				}
				(Ok(()), Some(b)) => Err(format!("BAD-ACCEPTED: serialize_all accepted a non-conforming value ({})", h.bad[b].1)),
				(Err(e), None) => Err(e.to_string()),
			}
		}
		Op::Push(idx) => {
			let mut buf = Vec::new();
			for i in idx {
				buf.extend_from_slice(&h.encoded[*i]);
			}
			w.push_serialized(&buf, idx.len() as u64).map_err(|e| e.to_string())?;
			accepted.extend(idx.iter().copied());
			Ok(())
		}
		Op::FinishBlock => w.finish_block().map_err(|e| e.to_string()),
	}
}

/// Decode all the objects of a reference-parsed file
pub fn ref_values(env: &Env, ms: &MSchema, f: &RefFile) -> Result<Vec<MValue>, String> {
	let mut out = Vec::new();
	for (bi, b) in f.blocks.iter().enumerate() {
		let mut d = Dec::new(&b.data);
		for _ in 0..b.count {
			out.push(d.decode(env, ms).map_err(|e| format!("block {bi}: {e}"))?);
		}
		if d.pos != b.data.len() {
			return Err(format!("block {bi}: {} objects end at byte {} of {}", b.count, d.pos, b.data.len()));
		}
	}
	Ok(out)
}

#[derive(Debug, Clone, PartialEq)]
pub enum Next {
	Value(MValue),
	End,
	Err(String),
}

/// Drive a crate Reader: up to `max_calls` calls. The public entry points that are documented to do
/// the same job (`deserialize_seed_next`, `deserialize_next::<T>`, the `deserialize::<T>()` iterator and,
/// for slice input, `deserialize_next_borrowed` / `deserialize_borrowed`) take turns call by call,
/// starting from a position derived from `salt` (no tape bytes are consumed for the choice).
pub fn drive_reader<'de, R>(rd: &mut Reader<R>, cctx: &CapCtx, ms: &MSchema, max_calls: usize) -> Vec<Next>
where
	R: serde_avro_fast::de::read::ReadSlice<'de> + serde_avro_fast::de::read::take::Take + std::io::BufRead,
	<R as serde_avro_fast::de::read::take::Take>::Take: serde_avro_fast::de::read::ReadSlice<'de> + std::io::BufRead,
{
	drive_calls(max_calls, |i| match (max_calls + i) % 3 {
		0 => rd.deserialize_seed_next(cctx.seed(ms)),
		1 => with_capture_tls(cctx, ms, || rd.deserialize_next::<TlsCaptured>()).map(|o| o.map(|v| v.0)),
		_ => with_capture_tls(cctx, ms, || rd.deserialize::<TlsCaptured>().next()).transpose().map(|o| o.map(|v| v.0)),
	})
}

fn drive_calls(max_calls: usize, mut call: impl FnMut(usize) -> Result<Option<MValue>, serde_avro_fast::de::DeError>) -> Vec<Next> {
	let mut out = Vec::new();
	let mut ends = 0;
	for i in 0..max_calls {
		match call(i) {
			Ok(Some(v)) => out.push(Next::Value(v)),
			Ok(None) => {
				out.push(Next::End);
				ends += 1;
				if ends >= 2 {
					break;
				}
			}
			Err(e) => out.push(Next::Err(e.to_string())),
		}
	}
	out
}

pub fn read_slice(env: &Env, ms: &MSchema, bytes: &[u8], cfg: &CapCfg, max_calls: usize) -> Result<(Vec<Next>, CapStats), String> {
	let cctx = CapCtx::new(env, cfg.clone(), Some(bytes));
	let mut rd = Reader::from_slice(bytes).map_err(|e| e.to_string())?;
	let r = drive_calls(max_calls, |i| match (bytes.len() + i) % 5 {
		0 => rd.deserialize_seed_next(cctx.seed(ms)),
		1 => with_capture_tls(&cctx, ms, || rd.deserialize_next::<TlsCaptured>()).map(|o| o.map(|v| v.0)),
		2 => with_capture_tls(&cctx, ms, || rd.deserialize::<TlsCaptured>().next()).transpose().map(|o| o.map(|v| v.0)),
		3 => with_capture_tls(&cctx, ms, || rd.deserialize_next_borrowed::<TlsCaptured>()).map(|o| o.map(|v| v.0)),
		_ => with_capture_tls(&cctx, ms, || rd.deserialize_borrowed::<TlsCaptured>().next()).transpose().map(|o| o.map(|v| v.0)),
	});
	let st = cctx.stats.borrow().clone();
	Ok((r, st))
}

pub fn read_bufread<R: std::io::BufRead>(env: &Env, ms: &MSchema, reader: R, cfg: &CapCfg, max_calls: usize) -> Result<(Vec<Next>, CapStats), String> {
	let cctx = CapCtx::new(env, cfg.clone(), None);
	let mut rd = Reader::from_reader(reader).map_err(|e| e.to_string())?;
	let r = drive_reader(&mut rd, &cctx, ms, max_calls);
	let st = cctx.stats.borrow().clone();
	Ok((r, st))
}

/// expected sequence for a healthy file: all values then End, End
pub fn expect_all(nexts: &[Next], want: &[&MValue]) -> Result<(), String> {
	let mut i = 0;
	for n in nexts {
		match n {
			Next::Value(v) => {
				if i >= want.len() {
					return Err(format!("extra value #{i}: {v:?}"));
				}
				if !v.same(want[i]) {
					return Err(format!("value #{i}: expected {:?} got {v:?}", want[i]));
				}
				i += 1;
			}
			Next::End => {
				if i != want.len() {
					return Err(format!("end of stream after {i} of {} values", want.len()));
				}
			}
			Next::Err(e) => return Err(format!("error after {i} values: {e}")),
		}
	}
	if i != want.len() {
		return Err(format!("only {i} of {} values", want.len()));
	}
	if nexts.iter().filter(|n| **n == Next::End).count() < 2 {
		return Err("end of stream not reported (twice)".into());
	}
	Ok(())
}

/// Drive a reader with the event-budgeted, non-collecting digest target (for
/// corrupted inputs, where only totality is asserted): returns the number of
/// Ok(Some) results
pub fn drive_reader_digest<'de, R>(rd: &mut Reader<R>, max_calls: usize, event_budget: u64) -> usize
where
	R: serde_avro_fast::de::read::ReadSlice<'de> + serde_avro_fast::de::read::take::Take + std::io::BufRead,
	<R as serde_avro_fast::de::read::take::Take>::Take: serde_avro_fast::de::read::ReadSlice<'de> + std::io::BufRead,
{
	let mut n = 0;
	let mut ends = 0;
	for _ in 0..max_calls {
		let ds = DigestState::new(event_budget);
		match rd.deserialize_seed_next(Digest { state: &ds }) {
			Ok(Some(())) => n += 1,
			Ok(None) => {
				ends += 1;
				if ends >= 2 {
					break;
				}
			}
			Err(_) => {}
		}
	}
	n
}

/// Get rid of a writer after a violation or a failed write: a normal drop (a leaked writer keeps up
/// to 5 GiB of reserved address space alive in the worker, and later cases of the same worker then
/// die of OOM under RLIMIT_AS), shielded because the final flush of a broken writer may panic in
/// debug builds.
pub fn discard<T>(w: T) {
	let _ = std::panic::catch_unwind(std::panic::AssertUnwindSafe(move || drop(w)));
}
