//! C19 Schema construction is total: any text or node graph gives Ok/Err, never a crash.

use super::common::*;
use crate::capture::*;
use crate::driver::Ctx;
use crate::model::*;
use crate::present::P;
use crate::tape::Tape;
use serde::de::DeserializeSeed;
use serde_avro_fast::de::{read::ReaderRead, read::SliceRead, DeserializerConfig, DeserializerState};
use serde_avro_fast::schema::{self as cs, verif_hooks, SchemaMut};
use serde_avro_fast::ser::SerializerConfig;

pub const RULE: &str = "case = one of: arbitrary (lossy UTF-8) text; JSON of arbitrary shape, nesting up to 300 levels; a near-miss schema (valid generated document with 1-3 token-level edits: wrong value types, huge / negative / fractional sizes, duplicated keys, deleted characters); a record DAG in which every record refers twice to the next one (depth <= 22, the shape that makes a naive cycle check exponential); a node vector (<= 48 nodes) over all public node types with arbitrary keys (dangling, self, cycles through named or unnamed nodes, shared), arbitrary names (empty, dots, unicode, quotes), arbitrary logical types on arbitrary nodes, huge sizes and scales. Calls: parse, Debug, canonical_form_rabin_fingerprint, serde_json::to_string, freeze, and on a frozen schema Debug + a few serialisations and deserialisations (IgnoredAny and an event-budgeted digest target, slice and reader). Oracle: every call returns (a panic is caught by the driver, a process death by the supervisor) and the traversal step counter (verif hook) stays within a polynomial budget; \
non-trivial = graph case with a cycle, a dangling key or sharing; or text that is valid JSON but not a valid schema; or the DAG case; distinct = hash of the text / node vector";

fn gen_json(t: &mut Tape, depth: usize, out: &mut String, budget: &mut usize) {
	if *budget == 0 {
		out.push_str("null");
		return;
	}
	*budget -= 1;
	let c = if depth > 300 { t.below(6) } else { t.below(9) };
	match c {
		0 => out.push_str("null"),
		1 => out.push_str(if t.bool() { "true" } else { "false" }),
		2 => out.push_str(t.pick_str(&["0", "-1", "1", "12", "16", "1e400", "-0.5", "18446744073709551615", "18446744073709551616", "340282366920938463463374607431768211456", "4294967296", "1.0"])),
		3 | 4 => out.push_str(&json_str(t.pick_str(&["null", "int", "record", "type", "name", "fields", "array", "items", "a.b", "", ".", "..", "enum", "symbols", "fixed", "size", "map", "values", "decimal", "logicalType", "R", "x\u{0}y", "é"]))),
		5 => out.push_str(&json_str(&crate::model::gen_string(t, 12))),
		6 | 7 => {
			out.push('{');
			let n = t.small(5);
			for i in 0..n {
				if i > 0 {
					out.push(',');
				}
				out.push_str(&json_str(t.pick_str(&["type", "name", "namespace", "fields", "symbols", "items", "values", "size", "logicalType", "precision", "scale", "doc", "zz", "type"])));
				out.push(':');
				gen_json(t, depth + 1, out, budget);
			}
			out.push('}');
		}
		_ => {
			// deep nesting in one go
			let extra = if t.chance(30) { t.below(300) } else { 0 };
			for _ in 0..extra {
				out.push('[');
			}
			out.push('[');
			let n = t.small(4);
			for i in 0..n {
				if i > 0 {
					out.push(',');
				}
				gen_json(t, depth + 1 + extra, out, budget);
			}
			out.push(']');
			for _ in 0..extra {
				out.push(']');
			}
		}
	}
}

fn near_miss(t: &mut Tape) -> String {
	let ast = SchemaGen::new(t, GenCfg::default()).gen();
	let mut text = {
		let mut sp = Speller::with_tape(t, true);
		sp.spell(&ast)
	};
	let edits = 1 + t.below(3);
	for _ in 0..edits {
		if text.is_empty() {
			break;
		}
		let pos = {
			let mut p = t.below(text.len());
			while !text.is_char_boundary(p) {
				p -= 1;
			}
			p
		};
		match t.below(6) {
			0 => {
				// delete a character
				let mut end = pos + 1;
				while end < text.len() && !text.is_char_boundary(end) {
					end += 1;
				}
				text.replace_range(pos..end.min(text.len()), "");
			}
			1 => text.insert_str(pos, t.pick_str(&["\"", "{", "}", "[", "]", ",", ":", "null", "1e999", "-1", "\\"])),
			2 => {
				// replace a number
				if let Some(i) = text.find("\"size\":") {
					let j = i + 7;
					let end = text[j..].find(|c: char| c == ',' || c == '}').map(|e| j + e).unwrap_or(text.len());
					text.replace_range(j..end, t.pick_str(&["-1", "1.5", "18446744073709551616", "\"12\"", "null", "1e3", "[]", "99999999999999999999999999"]));
				}
			}
			3 => {
				// wrong type for an attribute
				for key in ["\"fields\":", "\"symbols\":", "\"items\":", "\"values\":", "\"name\":", "\"type\":"] {
					if let Some(i) = text.find(key) {
						if t.bool() {
							text.insert_str(i + key.len(), t.pick_str(&["null,\"x\":", "7,\"x\":", "{},\"x\":", "[[]],\"x\":", "\"int\",\"x\":"]));
							break;
						}
					}
				}
			}
			4 => {
				// duplicate a key
				if let Some(i) = text.find("\"type\":") {
					text.insert_str(i, "\"type\":\"int\",");
				}
			}
			_ => {
				// truncate
				text.truncate(pos);
			}
		}
	}
	text
}

fn record_dag(t: &mut Tape) -> (String, usize) {
	let depth = 2 + t.below(21);
	// R0 innermost; R_k has two fields of type R_{k-1}: first one defines it inline, second refers to it
	let mut inner = String::from("{\"type\":\"record\",\"name\":\"R0\",\"fields\":[{\"name\":\"v\",\"type\":\"int\"}]}");
	for k in 1..=depth {
		inner = format!("{{\"type\":\"record\",\"name\":\"R{k}\",\"fields\":[{{\"name\":\"a\",\"type\":{inner}}},{{\"name\":\"b\",\"type\":\"R{}\"}}]}}", k - 1);
	}
	(inner, depth)
}

const NAMES: &[&str] = &["A", "B", "a.A", "a.b.C", "", ".", ".x", "a..b", "a.", "é.ü", "x\"y", "with space", "0digit", "String", "null", "a.b.c.d.e.f.g.h.i.j.k.l.m.n.o.p.q.r.s.t.u.v.w.x.y.z.Long_Name_0123456789"];

fn gen_nodes(t: &mut Tape) -> Vec<cs::SchemaNode> {
	let n = t.small(48);
	let key = |t: &mut Tape, i: usize| -> cs::SchemaKey {
		// mostly forward keys (DAG-ish), sometimes anything incl. dangling
		let k = match t.below(8) {
			0 => t.below(n + 3),
			1 => i,
			2 => 0,
			_ => (i + 1 + t.below(4)).min(n + 1),
		};
		cs::SchemaKey::from_idx(k)
	};
	let mut nodes = Vec::new();
	for i in 0..n {
		let ty = match t.below(15) {
			0 => cs::RegularType::Null,
			1 => cs::RegularType::Boolean,
			2 => cs::RegularType::Int,
			3 => cs::RegularType::Long,
			4 => cs::RegularType::Float,
			5 => cs::RegularType::Double,
			6 => cs::RegularType::Bytes,
			7 => cs::RegularType::String,
			8 => cs::RegularType::Array(cs::Array::new(key(t, i))),
			9 => cs::RegularType::Map(cs::Map::new(key(t, i))),
			10 => {
				let k = t.small(4);
				cs::RegularType::Union(cs::Union::new((0..k).map(|_| key(t, i)).collect()))
			}
			11 | 12 => {
				let k = t.small(4);
				let fields = (0..k).map(|j| cs::RecordField::new(*t.pick(&["a", "b", "", "a", "é", "x y"]), if j == 0 { key(t, i) } else { key(t, i) })).collect();
				cs::RegularType::Record(cs::Record::new(cs::Name::from_fully_qualified_name(*t.pick(NAMES)), fields))
			}
			13 => {
				let k = t.small(4);
				cs::RegularType::Enum(cs::Enum::new(cs::Name::from_fully_qualified_name(*t.pick(NAMES)), (0..k).map(|_| (*t.pick(&["A", "B", "A", "", "\"", "é"])).to_string()).collect()))
			}
			_ => cs::RegularType::Fixed(cs::Fixed::new(cs::Name::from_fully_qualified_name(*t.pick(NAMES)), *t.pick(&[0usize, 1, 12, 16, 17, 1 << 20, 1 << 40, usize::MAX]))),
		};
		let node = if t.chance(70) {
			let l = match t.below(11) {
				0 => cs::LogicalType::Decimal(cs::Decimal::new(*t.pick(&[0u32, 1, 28, 29, 1000, u32::MAX]), *t.pick(&[0usize, 1, 38, usize::MAX]))),
				1 => cs::LogicalType::Uuid,
				2 => cs::LogicalType::Date,
				3 => cs::LogicalType::TimeMillis,
				4 => cs::LogicalType::TimeMicros,
				5 => cs::LogicalType::TimestampMillis,
				6 => cs::LogicalType::TimestampMicros,
				7 => cs::LogicalType::Duration,
				8 => cs::LogicalType::BigDecimal,
				_ => cs::LogicalType::Unknown(cs::UnknownLogicalType::new(*t.pick(&["", "custom", "decimal", "\"quoted\""]))),
			};
			cs::SchemaNode::with_logical_type(ty, l)
		} else {
			cs::SchemaNode::new(ty)
		};
		nodes.push(node);
	}
	nodes
}

/// Rough upper bound of the unfolded size of a graph (cycle edges cut, saturating)
fn unfolded_bound(nodes: &[cs::SchemaNode]) -> u64 {
	fn go(nodes: &[cs::SchemaNode], i: usize, on_stack: &mut Vec<bool>, memo: &mut Vec<Option<u64>>, depth: usize) -> u64 {
		if i >= nodes.len() || on_stack[i] || depth > 200 {
			return 1;
		}
		if let Some(m) = memo[i] {
			return m;
		}
		on_stack[i] = true;
		let mut c: u64 = 1;
		let mut add = |k: usize, c: &mut u64, on_stack: &mut Vec<bool>, memo: &mut Vec<Option<u64>>| {
			*c = c.saturating_add(go(nodes, k, on_stack, memo, depth + 1));
		};
		match &nodes[i].type_ {
			cs::RegularType::Array(a) => add(a.items.idx(), &mut c, on_stack, memo),
			cs::RegularType::Map(m) => add(m.values.idx(), &mut c, on_stack, memo),
			cs::RegularType::Union(u) => u.variants.iter().for_each(|k| add(k.idx(), &mut c, on_stack, memo)),
			cs::RegularType::Record(r) => r.fields.iter().for_each(|f| add(f.type_.idx(), &mut c, on_stack, memo)),
			_ => {}
		}
		on_stack[i] = false;
		memo[i] = Some(c);
		c
	}
	if nodes.is_empty() {
		return 1;
	}
	go(nodes, 0, &mut vec![false; nodes.len()], &mut vec![None; nodes.len()], 0)
}

fn has_big_fixed_json(json: &str) -> bool {
	// any "size": N with N > 1 MiB
	let mut rest = json;
	while let Some(i) = rest.find("\"size\":") {
		rest = &rest[i + 7..];
		let digits: String = rest.chars().take_while(|c| c.is_ascii_digit()).collect();
		if digits.len() > 7 || digits.parse::<u64>().map(|n| n > (1 << 20)).unwrap_or(true) {
			return true;
		}
	}
	false
}

fn exercise_frozen(t: &mut Tape, s: &serde_avro_fast::Schema, ctx: &mut Ctx, serialise: bool) {
	let _ = format!("{s:?}");
	let _ = s.json().len();
	let _ = s.rabin_fingerprint();
	// a few serialisations (any result is fine, they must return)
	let ps = [
		P::Unit,
		P::I32(1),
		P::I64(-1),
		P::Str("a".into()),
		P::Bytes(vec![0; 12]),
		P::Bool(true),
		P::F64(0),
		P::Seq(Some(1), vec![P::I32(1)]),
		P::Seq(None, vec![P::U32(1), P::U32(2), P::U32(3)]),
		P::Map(Some(1), vec![(P::Str("a".into()), P::I32(1))], true),
		P::Struct("A", vec![("a", P::I32(1)), ("b", P::Unit)]),
		P::UnitVariant("E", 0, "A"),
		P::NewtypeVariant("U", 0, "A", Box::new(P::Unit)),
		P::Some(Box::new(P::Str("1.5".into()))),
	];
	let mut sc = SerializerConfig::new(s);
	sc.allow_slow_sequence_to_bytes();
	let mut produced: Vec<Vec<u8>> = Vec::new();
	// (a decimal on fixed(2^40) legitimately IS a 2^40-byte encoding: the serialise
	// follow-up is only run when every fixed size is <= 1 MiB)
	for p in ps.iter().filter(|_| serialise) {
		if let Ok(b) = serde_avro_fast::to_datum_vec(p, &mut sc) {
			produced.push(b);
		}
	}
	// a few deserialisations
	let n = t.small(30);
	let mut inputs: Vec<Vec<u8>> = vec![vec![], vec![0], vec![2; 70], t.bytes(n)];
	inputs.extend(produced.into_iter().take(3));
	for inp in &inputs {
		let mut cfg = DeserializerConfig::new(s);
		cfg.max_seq_size = 10_000;
		let mut st = DeserializerState::with_config(SliceRead::new(inp), cfg.clone());
		let _ = <serde::de::IgnoredAny as serde::Deserialize>::deserialize(st.deserializer());
		let ds = DigestState::new(2_000_000);
		let mut st = DeserializerState::with_config(SliceRead::new(inp), cfg.clone());
		let r = Digest { state: &ds }.deserialize(st.deserializer());
		if let Err(e) = &r {
			if e.to_string().contains("event budget exceeded") {
				ctx.violation("C19/deserialize-work-unbounded", format!("schema {} input {}: more than 2M visitor events under max_seq_size 10000", trunc(s.json(), 300), hex(inp)));
			}
		}
		let mut rr = ReaderRead::new(&inp[..]);
		rr.max_alloc_size = 1 << 16;
		let ds = DigestState::new(2_000_000);
		let mut st = DeserializerState::with_config(rr, cfg);
		let _ = Digest { state: &ds }.deserialize(st.deserializer());
	}
}

pub fn run(tape: &[u8], ctx: &mut Ctx) {
	let mut t = Tape::new(tape);
	let mode = t.below(10);
	match mode {
		0..=4 => {
			let (text, kind, size_hint): (String, &str, u64) = match mode {
				0 => {
					let n = t.small(200);
					(String::from_utf8_lossy(&t.bytes(n)).to_string(), "arbitrary-text", 0)
				}
				1 | 2 => {
					let mut s = String::new();
					let mut budget = 400;
					gen_json(&mut t, 0, &mut s, &mut budget);
					(s, "arbitrary-json", 0)
				}
				3 => (near_miss(&mut t), "near-miss", 0),
				_ => {
					let (s, d) = record_dag(&mut t);
					(s, "record-dag", d as u64)
				}
			};
			ctx.label(format!("text:{kind}"));
			let valid_json = serde_json::from_str::<serde_json::Value>(&text).is_ok() || text.matches('[').count() > 120;
			verif_hooks::reset_steps();
			let parsed = text.parse::<SchemaMut>();
			let steps = verif_hooks::steps();
			ctx.nontrivial = (valid_json && parsed.is_err()) || kind == "record-dag";
			ctx.hash_case(&text);
			if ctx.want_sample {
				ctx.sample = Some(serde_json::json!({"kind": kind, "text": trunc(&text, 500), "parse_result": format!("{:?}", parsed.as_ref().map(|s| s.nodes().len()).map_err(|e| trunc(&e.to_string(), 120))), "traversal_steps": steps}));
			}
			// work budget: parsing visits each JSON node once, the cycle check each record edge O(1) times
			let budget = 64 * (text.len() as u64 + 16);
			if steps > budget {
				ctx.violation(format!("C19/parse-work-superlinear/{kind}"), format!("document of {} bytes (record chain depth {size_hint}) took {steps} traversal steps (budget {budget}): {}", text.len(), trunc(&text, 300)));
			}
			if let Ok(sm) = parsed {
				let _ = format!("{sm:?}");
				verif_hooks::reset_steps();
				let _ = sm.canonical_form_rabin_fingerprint();
				let _ = serde_json::to_string(&sm);
				let frozen = sm.freeze();
				let steps2 = verif_hooks::steps();
				let budget2 = 4096 * (text.len() as u64 + 16);
				if steps2 > budget2 && kind != "record-dag" {
					ctx.violation("C19/render-work-unbounded", format!("document of {} bytes: {steps2} steps in fingerprint+render+freeze", text.len()));
				}
				if let Ok(s) = frozen {
					ctx.label("text:frozen");
					let small = !text.contains("\"size\"") || s.json().len() < 100_000 && !has_big_fixed_json(s.json());
					exercise_frozen(&mut t, &s, ctx, small);
				}
			}
			let _ = text.parse::<serde_avro_fast::Schema>();
		}
		_ => {
			let nodes = gen_nodes(&mut t);
			let n = nodes.len() as u64;
			let u = unfolded_bound(&nodes);
			if u > 200_000 {
				ctx.label("graph:skipped-unfolding-too-large");
				return;
			}
			let dangling = nodes.iter().any(|nd| match &nd.type_ {
				cs::RegularType::Array(a) => a.items.idx() >= nodes.len(),
				cs::RegularType::Map(m) => m.values.idx() >= nodes.len(),
				cs::RegularType::Union(un) => un.variants.iter().any(|k| k.idx() >= nodes.len()),
				cs::RegularType::Record(r) => r.fields.iter().any(|f| f.type_.idx() >= nodes.len()),
				_ => false,
			});
			let unfoldable = unfold(&nodes);
			let cyclic_unnamed = matches!(&unfoldable, Err(e) if e.contains("cycle"));
			ctx.label("graph");
			if dangling {
				ctx.label("graph:dangling-key");
			}
			if cyclic_unnamed {
				ctx.label("graph:unnamed-cycle");
			}
			if nodes.is_empty() {
				ctx.label("graph:empty");
			}
			ctx.nontrivial = dangling || cyclic_unnamed || nodes.len() >= 3;
			ctx.hash_case(&format!("{nodes:?}"));
			if ctx.want_sample {
				ctx.sample = Some(serde_json::json!({"kind": "node-vector", "nodes": trunc(&format!("{nodes:?}"), 700), "dangling_key": dangling, "unnamed_cycle": cyclic_unnamed}));
			}
			let sm = SchemaMut::from_nodes(nodes);
			let _ = format!("{sm:?}");
			let budget = 2000 * (u + n + 1) * (n + 1);
			verif_hooks::reset_steps();
			let fp = sm.canonical_form_rabin_fingerprint();
			let s1 = verif_hooks::steps();
			if s1 > budget {
				ctx.violation("C19/fingerprint-work-unbounded", format!("{} nodes (unfolding bound {u}): {s1} steps", n));
			}
			verif_hooks::reset_steps();
			let js = serde_json::to_string(&sm);
			let s2 = verif_hooks::steps();
			if s2 > budget {
				ctx.violation("C19/render-work-unbounded", format!("{} nodes (unfolding bound {u}): {s2} steps", n));
			}
			let _ = (fp, js);
			let sm2 = sm.clone();
			verif_hooks::reset_steps();
			let frozen = sm.freeze();
			let s3 = verif_hooks::steps();
			if s3 > 2 * budget {
				ctx.violation("C19/freeze-work-unbounded", format!("{} nodes: {s3} steps", n));
			}
			match frozen {
				Ok(s) => {
					ctx.label("graph:frozen");
					let small = !sm2.nodes().iter().any(|n| matches!(&n.type_, cs::RegularType::Fixed(f) if f.size > (1 << 20)));
					exercise_frozen(&mut t, &s, ctx, small);
				}
				Err(_) => {
					if sm2.nodes().is_empty() {
						ctx.label("graph:empty-rejected");
					}
				}
			}
		}
	}
}
