//! C06 Container files follow the Avro file layout and interoperate with other tools.

use super::common::*;
use super::container::*;
use crate::apache;
use crate::capture::*;
use crate::driver::Ctx;
use crate::io::ChunkedReader;
use crate::model::container::*;
use crate::model::*;
use crate::tape::Tape;
use serde_avro_fast::object_container_file_encoding::Reader;
use serde_avro_fast::ser::SerializerConfig;
use std::collections::BTreeMap;

pub const RULE: &str = "case = direction W (crate writes): (schema, values, codec, level, approx_block_size, op list, user metadata map of 0-4 entries with arbitrary byte values) judged by the reference parser - magic, avro.schema = schema.json() byte-exact, avro.codec = codec name, user metadata preserved, the configured 16-byte sync marker after every block, count/size consistent, data decoding after reference decompression to the written values - and read by apache-avro 0.17 on the sub-domain it supports; or direction R (crate reads): a file written by the reference writer (any partition of the values into blocks, metadata in any order and any block layout of the metadata map incl. negative counts, extra keys, avro.codec absent for the null codec, every codec) or by apache-avro, read by the crate from a slice and a chunked reader, user metadata extracted; \
non-trivial = codec != null, or >=2 blocks, or non-empty user metadata, or reference-written with reordered/extra metadata or omitted avro.codec; distinct = hash of (direction, schema JSON, file bytes)";

struct OnlyWrite(Vec<u8>);
impl std::io::Write for OnlyWrite {
	fn write(&mut self, b: &[u8]) -> std::io::Result<usize> {
		self.0.extend_from_slice(b);
		Ok(b.len())
	}
	fn flush(&mut self) -> std::io::Result<()> {
		Ok(())
	}
}

pub fn run(tape: &[u8], ctx: &mut Ctx) {
	let mut t = Tape::new(tape);
	// (failing values and buffer-boundary sized blocks are included: the layout of what reaches the
	// file must be right in those histories too)
	let hc = HistCfg { allow_bad: true, allow_big: true, max_ops: 6, codecs: ALL_CODECS, user_meta: true };
	let Some(h) = gen_hist(&mut t, ctx, "C06", &hc) else { return };
	let env = Env::new(&h.case.schema);
	ctx.label(format!("codec:{}", h.codec.name()));
	let outline = hist_outline(&h);
	let in_apache_domain = apache::schema_in_apache_domain(&h.case.schema);
	let cfg = CapCfg::from_tape(&mut t);
	if t.bool() {
		// ---------------- direction W: crate writes ----------------
		ctx.label("direction:crate-writes");
		let mut sc = SerializerConfig::new(&h.case.crate_schema);
		sc.allow_slow_sequence_to_bytes();
		let mut accepted = Vec::new();
		let bytes = {
			// (a sink that only implements `write`: std's default write_vectored then hands over one
			// buffer per call, as files behind wrappers and most custom writers do)
			let mut w = match build_writer(&mut sc, &h, OnlyWrite(Vec::new())) {
				Ok(w) => w,
				Err(e) => {
					ctx.violation("C06/writer-build-failed", format!("{outline} user metadata {:?}: {e}", h.user_meta));
					return;
				}
			};
			for op in &h.ops {
				if let Err(e) = apply_op(&mut w, &h, op, &mut accepted) {
					ctx.violation("C06/write-failed", format!("schema {} {outline}: {e}", h.case.json));
					discard(w);
					return;
				}
			}
			match w.into_inner() {
				Ok(b) => b.0,
				Err(e) => {
					ctx.violation("C06/write-failed", format!("schema {} {outline}: {e}", h.case.json));
					return;
				}
			}
		};
		let want: Vec<&MValue> = accepted.iter().map(|i| &h.values[*i]).collect();
		let rf = match ref_parse(&bytes) {
			Ok(f) => f,
			Err(e) => {
				ctx.violation(format!("C06/layout-invalid/{}", h.codec.name()), format!("schema {} {outline}: {e}; file {}", h.case.json, hex(&bytes)));
				return;
			}
		};
		ctx.nontrivial = h.codec != Codec::Null || rf.blocks.len() >= 2 || !h.user_meta.is_empty();
		ctx.hash_case(&format!("W|{}|{}", h.case.json, crate::tape::fnv64(&bytes)));
		if ctx.want_sample {
			let mut s = hist_sample(&h);
			s["direction"] = "crate-writes".into();
			s["file_len"] = bytes.len().into();
			s["header_metadata_keys"] = serde_json::json!(rf.metadata.iter().map(|m| m.0.clone()).collect::<Vec<_>>());
			ctx.sample = Some(s);
		}
		if rf.meta("avro.schema") != Some(h.case.crate_schema.json().as_bytes()) {
			ctx.violation("C06/header-schema-differs", format!("avro.schema = {:?} but schema.json() = {:?}", rf.meta("avro.schema").map(String::from_utf8_lossy), h.case.crate_schema.json()));
		}
		// ... and that text must denote the schema the values were written with (read with the
		// harness's own schema reader: an independent tool decodes the blocks with what the header says)
		match rf.meta("avro.schema").and_then(|b| std::str::from_utf8(b).ok()).map(parse_json_schema) {
			Some(Ok(m)) => {
				if normalize_first_occurrence(&m) != normalize_first_occurrence(&h.case.schema) {
					ctx.violation("C06/header-schema-denotes-another-schema", format!("values written under {} but the header's avro.schema is {}", h.case.json, spell_plain(&m)));
				}
			}
			Some(Err(e)) => ctx.violation("C06/header-schema-invalid", format!("avro.schema of a file written under {}: {e}", h.case.json)),
			None => ctx.violation("C06/header-schema-missing", outline.clone()),
		}
		match rf.meta("avro.codec") {
			Some(c) if c == h.codec.name().as_bytes() => {}
			None if h.codec == Codec::Null => {}
			other => ctx.violation("C06/header-codec-wrong", format!("avro.codec = {:?}, expected {:?}", other.map(String::from_utf8_lossy), h.codec.name())),
		}
		if rf.sync != h.sync {
			ctx.violation("C06/sync-marker-not-the-configured-one", format!("{} vs {}", hex(&rf.sync), hex(&h.sync)));
		}
		let user: Vec<(String, Vec<u8>)> = rf.metadata.iter().filter(|(k, _)| !k.starts_with("avro.")).cloned().collect();
		let mut a = user.clone();
		a.sort();
		let mut b = h.user_meta.clone();
		b.sort();
		if a != b {
			ctx.violation("C06/user-metadata-not-preserved", format!("wrote {:?}, header has {:?}", h.user_meta, user));
		}
		if rf.metadata.iter().filter(|(k, _)| k.starts_with("avro.")).any(|(k, _)| k != "avro.schema" && k != "avro.codec") {
			ctx.violation("C06/unexpected-reserved-metadata", format!("{:?}", rf.metadata.iter().map(|m| &m.0).collect::<Vec<_>>()));
		}
		if rf.blocks.iter().any(|b| b.count == 0) {
			ctx.violation("C06/empty-block-written", outline.clone());
		}
		match ref_values(&env, &h.case.schema, &rf) {
			Ok(vals) => {
				if vals.len() != want.len() || vals.iter().zip(&want).any(|(a, b)| !a.same(b)) {
					ctx.violation(format!("C06/reference-reads-different-values/{}", h.codec.name()), format!("schema {} {outline}: wrote {} values, reference reads {}", h.case.json, want.len(), vals.len()));
				}
			}
			Err(e) => ctx.violation(format!("C06/block-contents-invalid/{}", h.codec.name()), format!("schema {} {outline}: {e}", h.case.json)),
		}
		// second implementation
		if in_apache_domain {
			match apache::apache_read(&env, &h.case.schema, &bytes) {
				Ok(vals) => {
					ctx.label("apache:read-ok");
					if vals.len() != want.len() || vals.iter().zip(&want).any(|(a, b)| !a.same(b)) {
						ctx.violation(format!("C06/apache-reads-different-values/{}", h.codec.name()), format!("schema {} {outline}: wrote {:?}, apache-avro reads {:?}", h.case.json, want, vals));
					}
				}
				Err(e) => {
					// apache-avro has restrictions and bugs of its own (e.g. it cannot read a
					// block of zero bytes): an apache *error* is never held against the crate,
					// the reference parser above decides; only different values are.
					ctx.label(format!("apache:error-skipped:{}", e.split(':').next().unwrap_or("")));
				}
			}
		} else {
			ctx.label("apache:not-in-domain");
		}
	} else {
		// ---------------- direction R: crate reads ----------------
		let nvals = 1 + t.small(8);
		let seq: Vec<usize> = (0..nvals).map(|_| t.below(h.values.len())).collect();
		let want: Vec<&MValue> = seq.iter().map(|i| &h.values[*i]).collect();
		let by_apache = in_apache_domain && t.chance(90);
		let (bytes, meta_note, user_meta): (Vec<u8>, String, Vec<(String, Vec<u8>)>) = if by_apache {
			ctx.label("direction:apache-writes");
			let flush_every = t.below(4);
			match apache::apache_write(&env, &h.case.schema, &h.case.json, &want, h.codec, flush_every) {
				Ok(b) => (b, format!("apache-avro writer, flush every {flush_every}"), vec![]),
				Err(_) => {
					ctx.label("apache:skipped");
					return;
				}
			}
		} else {
			ctx.label("direction:reference-writes");
			// metadata: avro.schema, optional avro.codec, user entries, in any order
			let mut meta: Vec<(String, Vec<u8>)> = vec![("avro.schema".into(), h.case.json.clone().into_bytes())];
			let omit_codec = h.codec == Codec::Null && t.bool();
			if !omit_codec {
				meta.push(("avro.codec".into(), h.codec.name().as_bytes().to_vec()));
			} else {
				ctx.label("meta:codec-omitted");
			}
			meta.extend(h.user_meta.iter().cloned());
			for i in (1..meta.len()).rev() {
				let j = t.below(i + 1);
				meta.swap(i, j);
			}
			// block layout of the metadata map
			let mut partition = Vec::new();
			let mut left = meta.len();
			while left > 0 {
				let k = if t.bool() { left } else { 1 + t.below(left) };
				partition.push(k);
				left -= k;
			}
			let negative: Vec<bool> = partition.iter().map(|_| t.chance(80)).collect();
			if partition.len() > 1 {
				ctx.label("meta:multi-block-map");
			}
			if negative.iter().any(|b| *b) {
				ctx.label("meta:negative-count-map");
			}
			let note = format!("metadata order {:?} partition {partition:?} negative {negative:?} codec {}", meta.iter().map(|m| m.0.clone()).collect::<Vec<_>>(), if omit_codec { "omitted" } else { h.codec.name() });
			let mut out = ref_write_header(&meta, &MetaLayout { partition, negative }, &h.sync);
			// any partition of the values into blocks
			// (a block may also hold zero objects: legal, and other writers emit them, e.g. on a flush
			// with nothing pending; the decision reuses the parity of the sync marker so that the
			// tape is consumed as before)
			let empty_blocks = h.sync[0] % 4 == 0;
			let mut i = 0;
			let mut nb = 0;
			while i < seq.len() {
				if empty_blocks && (h.sync[1] as usize + nb) % 2 == 0 {
					ref_write_block(&mut out, h.codec, 0, &[], &h.sync);
				}
				let k = if t.bool() { seq.len() - i } else { 1 + t.below(seq.len() - i) };
				let mut data = Vec::new();
				for j in &seq[i..i + k] {
					data.extend_from_slice(&h.encoded[*j]);
				}
				ref_write_block(&mut out, h.codec, k, &data, &h.sync);
				i += k;
				nb += 1;
			}
			if empty_blocks {
				ctx.label("file:zero-object-blocks");
				if h.sync[2] % 2 == 0 {
					ref_write_block(&mut out, h.codec, 0, &[], &h.sync);
				}
			}
			(out, note, h.user_meta.clone())
		};
		ctx.nontrivial = h.codec != Codec::Null || !user_meta.is_empty() || meta_note.contains("omitted") || by_apache;
		ctx.hash_case(&format!("R|{}|{}", h.case.json, crate::tape::fnv64(&bytes)));
		if ctx.want_sample {
			ctx.sample = Some(serde_json::json!({"direction": if by_apache { "apache-writes" } else { "reference-writes" }, "schema": trunc(&h.case.json, 400), "codec": h.codec.name(), "n_values": want.len(), "writer": trunc(&meta_note, 400), "file_len": bytes.len()}));
		}
		// apache re-serialises the schema into the header: if that text no longer denotes
		// the same schema (an apache bug), the case says nothing about the crate
		if by_apache {
			let same = ref_parse(&bytes).ok().and_then(|f| f.meta("avro.schema").map(|m| String::from_utf8_lossy(m).to_string())).and_then(|j| parse_json_schema(&j).ok()).map(|m| normalize_first_occurrence(&m) == normalize_first_occurrence(&h.case.schema)).unwrap_or(false);
			if !same {
				ctx.label("apache:header-schema-differs(skipped)");
				return;
			}
		}
		// sanity: the reference parser reads its own / apache's file
		match ref_parse(&bytes).and_then(|f| ref_values(&env, &h.case.schema, &f)) {
			Ok(vals) if vals.len() == want.len() && vals.iter().zip(&want).all(|(a, b)| a.same(b)) => {}
			other => {
				if by_apache {
					ctx.label("apache:file-not-understood-by-reference(skipped)");
				} else {
					ctx.violation("harness/reference-writer", format!("reference parser disagrees with reference writer: {other:?}"));
				}
				return;
			}
		}
		let max_calls = want.len() + 4;
		match read_slice(&env, &h.case.schema, &bytes, &cfg, max_calls) {
			Ok((nexts, _)) => {
				if let Err(e) = expect_all(&nexts, &want) {
					ctx.violation(format!("C06/conforming-file-misread/{}/slice", h.codec.name()), format!("schema {} ({meta_note}) file {}: {e}", h.case.json, trunc(&hex(&bytes), 600)));
				}
			}
			Err(e) => {
				let why = if meta_note.contains("codec omitted") && e.contains("avro.codec") { "/codec-omitted" } else { "" };
				ctx.violation(format!("C06/conforming-file-rejected{why}"), format!("schema {} ({meta_note}) file {}: {e}", h.case.json, trunc(&hex(&bytes), 600)));
				return;
			}
		}
		let (sizes, tail) = gen_partition(&mut t, 64);
		match read_bufread(&env, &h.case.schema, ChunkedReader::new(&bytes, sizes.clone(), tail), &cfg, max_calls) {
			Ok((nexts, _)) => {
				if let Err(e) = expect_all(&nexts, &want) {
					ctx.violation(format!("C06/conforming-file-misread/{}/reader", h.codec.name()), format!("schema {} ({meta_note}) chunks {sizes:?}/{tail}: {e}", h.case.json));
				}
			}
			Err(e) => ctx.violation("C06/conforming-file-rejected/reader", format!("schema {} ({meta_note}): {e}", h.case.json)),
		}
		// user metadata extraction
		if !by_apache {
			let r = Reader::new_and_metadata::<BTreeMap<String, serde_bytes::ByteBuf>>(serde_avro_fast::de::read::SliceRead::new(&bytes));
			match r {
				Ok((_, m)) => {
					let got: Vec<(String, Vec<u8>)> = m.into_iter().map(|(k, v)| (k, v.into_vec())).collect();
					let mut wantm = user_meta.clone();
					wantm.sort();
					if got != wantm {
						ctx.violation("C06/user-metadata-misread", format!("({meta_note}) wrote {:?} read {:?}", wantm, got));
					}
				}
				Err(e) => ctx.violation("C06/user-metadata-extraction-failed", format!("({meta_note}): {e}")),
			}
		}
	}
}
