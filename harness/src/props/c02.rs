//! C02 Encoder soundness: Ok means spec-exact bytes of the same logical value;
//! unrepresentable values fail.

use super::common::*;
use crate::driver::Ctx;
use crate::model::*;
use crate::present::*;
use crate::tape::Tape;
use serde_avro_fast::ser::SerializerConfig;

pub const RULE: &str = "case = (generated schema, conforming value, any accepted presentation per node (integer widths, str/bytes/unit-variant/integer for enums, struct or map for records, seq/tuple/bytes, Some/None, named or type-directed unions)[, one non-conforming mutation at a tape-chosen node]); \
non-trivial = some node uses a non-canonical serde call for its kind, or the case carries a non-conforming mutation; distinct = hash of (schema JSON, presentation tree)";

const CANONICAL: &[&str] = &[
	"null/unit", "boolean/bool", "int/i32", "long/i64", "float/f32", "double/f64", "bytes/bytes", "string/str", "uuid/str", "array/seq(len)", "map/map(len,entry)", "record/struct", "enum/unit_variant", "fixed/bytes",
	"decimal-bytes/str", "decimal-fixed/str", "big-decimal/str", "duration/tuple", "union/newtype_variant", "union/type-directed", "union/none|unit", "union/none", "union/unit",
];

pub fn run(tape: &[u8], ctx: &mut Ctx) {
	let mut t = Tape::new(tape);
	let Some(case) = gen_schema_case(&mut t, GenCfg::default(), ctx, "C02") else { return };
	let env = Env::new(&case.schema);
	schema_labels(&case.schema, ctx);
	let value = ValueGen::new(&mut t, &env, ValCfg::default()).gen(&case.schema);
	let want_mutation = t.chance(110);
	let pick = t.u16() as usize;
	// dry run on a copy of the tape to learn how many nodes the presentation visits
	let n_nodes = {
		let mut t2 = t.clone();
		let mut pr = Presenter::new(&mut t2, &env, Mode::Accepted);
		let _ = pr.present(&case.schema, &value);
		pr.node_counter.max(1)
	};
	let (p, cells, slow, mutation) = {
		let mut pr = Presenter::new(&mut t, &env, Mode::Accepted);
		if want_mutation {
			pr.mutate_at = Some((pick * n_nodes) >> 16);
		}
		let p = pr.present(&case.schema, &value);
		(p, pr.cells, pr.needs_slow_seq_bytes, pr.mutation)
	};
	let mut noncanonical = false;
	for c in &cells {
		ctx.label(format!("cell:{c}"));
		if !CANONICAL.contains(&c.as_str()) {
			noncanonical = true;
		}
	}
	if let Some(m) = &mutation {
		ctx.label(format!("mutation:{m}"));
	}
	ctx.nontrivial = noncanonical || mutation.is_some();
	ctx.hash_case(&format!("{}|{:?}", case.json, p));
	if ctx.want_sample {
		ctx.sample = Some(serde_json::json!({
			"schema": trunc(&case.json, 600),
			"value": trunc(&format!("{value:?}"), 400),
			"presentation": trunc(&format!("{p:?}"), 500),
			"mutation": mutation,
		}));
	}
	let mut sc = SerializerConfig::new(&case.crate_schema);
	if slow || t.chance(40) {
		sc.allow_slow_sequence_to_bytes();
	}
	let res = serde_avro_fast::to_datum_vec(&p, &mut sc);
	match (&res, &mutation) {
		(Ok(bytes), Some(m)) => {
			ctx.violation(format!("C02/unrepresentable-accepted/{m}"), format!("schema {} presentation {:?} ({m}) returned Ok with bytes {}", case.json, p, hex(bytes)));
		}
		(Ok(bytes), None) => {
			ctx.label("result:ok");
			match decode_strict(&env, &case.schema, bytes) {
				Ok((v, n)) => {
					if n != bytes.len() {
						ctx.violation("C02/ok-bytes-trailing-garbage", format!("schema {} presentation {:?}: bytes {} decode with {} of {} consumed", case.json, p, hex(bytes), n, bytes.len()));
					} else if !v.same(&value) {
						let cell = first_suspect_cell(&cells);
						ctx.violation(format!("C02/ok-bytes-decode-to-different-value/{cell}"), format!("schema {} value {:?} presented as {:?}: bytes {} decode (reference decoder) to {:?}", case.json, value, p, hex(bytes), v));
					}
				}
				Err(e) => {
					let cell = first_suspect_cell(&cells);
					ctx.violation(format!("C02/ok-bytes-do-not-decode/{cell}"), format!("schema {} value {:?} presented as {:?}: bytes {} rejected by the reference decoder: {e}", case.json, value, p, hex(bytes)));
				}
			}
		}
		(Err(_), Some(_)) => ctx.label("result:err(expected)"),
		(Err(e), None) => {
			// Err is always sound for C02; recorded for the distribution
			ctx.label("result:err(conforming)");
			let _ = e;
		}
	}
}

/// Discriminating fact for signatures: the single non-canonical cell if there is
/// exactly one kind of them, else "mixed"
fn first_suspect_cell(cells: &[String]) -> String {
	let mut nc: Vec<&String> = cells.iter().filter(|c| !CANONICAL.contains(&c.as_str())).collect();
	nc.sort();
	nc.dedup();
	match nc.len() {
		0 => "canonical".into(),
		1 => nc[0].replace('/', ":"),
		_ => "mixed".into(),
	}
}
