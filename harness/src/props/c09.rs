//! C09 Schema JSON: preserved when parsed, regenerated equivalently when built/edited.

use super::c07::make_forward;
use super::common::*;
use crate::driver::Ctx;
use crate::model::*;
use crate::tape::Tape;
use serde_avro_fast::schema::{self as cs, SchemaMut};

pub const RULE: &str = "case = one of (a) a parsed, unedited document (C07's speller): Schema::json() must be whitespace-free, JSON-equal to the document and keep its key sequence; (b) a graph built with SchemaMut::from_nodes from a generated AST - every named node under a namespace drawn independently of its parent's, named nodes shared by every reference, cycles through named nodes, unnamed sub-trees shared between several parents - or a parsed document edited through nodes_mut(): serde_json::to_string(&SchemaMut) and freeze().json() must parse back (crate parser AND the harness's own spec reader) to a graph whose unfolding (structure, fullnames, field order, symbols, sizes, logical types with parameters) and fingerprint equal the original's; (c) a graph with a cycle through unnamed nodes only: rendering and freezing must return Err; \
non-trivial = (b)/(c) with a named node referenced >=2 times, or parent/child namespaces that differ, or a cycle; or (a) with extra attributes; distinct = hash of the rendered/preserved JSON";

/// Share structurally identical pure-unnamed sub-trees between parents (graph-level sharing)
pub fn share_unnamed(t: &mut Tape, nodes: &mut Vec<cs::SchemaNode>) -> usize {
	fn pure_unnamed_sig(nodes: &[cs::SchemaNode], idx: usize, depth: usize) -> Option<String> {
		if depth > 6 {
			return None;
		}
		let n = nodes.get(idx)?;
		let l = n.logical_type.as_ref().map(|l| format!("{l:?}")).unwrap_or_default();
		Some(match &n.type_ {
			cs::RegularType::Array(a) => format!("A({})[{l}]", pure_unnamed_sig(nodes, a.items.idx(), depth + 1)?),
			cs::RegularType::Map(m) => format!("M({})[{l}]", pure_unnamed_sig(nodes, m.values.idx(), depth + 1)?),
			cs::RegularType::Union(u) => {
				let mut s = String::from("U(");
				for v in &u.variants {
					s.push_str(&pure_unnamed_sig(nodes, v.idx(), depth + 1)?);
					s.push(',');
				}
				s.push(')');
				s
			}
			// a named type is one node, shared by every reference: two unnamed sub-trees that reach the same
			// named node are the same schema. (A redirection can therefore close a cycle, e.g. the root
			// union [null, R] re-entered from R's own field - always through the named node, so expressible.)
			cs::RegularType::Record(_) | cs::RegularType::Enum(_) | cs::RegularType::Fixed(_) => {
				if depth == 0 {
					return None;
				}
				format!("N{idx}")
			}
			other => format!("{other:?}[{l}]"),
		})
	}
	let sigs: Vec<Option<String>> = (0..nodes.len()).map(|i| pure_unnamed_sig(nodes, i, 0)).collect();
	let mut shared = 0;
	// redirect keys
	let n = nodes.len();
	let redirect = |k: &mut cs::SchemaKey, t: &mut Tape, shared: &mut usize| {
		let i = k.idx();
		if let Some(Some(sig)) = sigs.get(i) {
			// earliest other node with the same signature
			if let Some(j) = (0..n).find(|&j| j != i && sigs[j].as_ref() == Some(sig)) {
				if t.chance(120) {
					*k = cs::SchemaKey::from_idx(j);
					*shared += 1;
				}
			}
		}
	};
	for node in nodes.iter_mut() {
		match &mut node.type_ {
			cs::RegularType::Array(a) => redirect(&mut a.items, t, &mut shared),
			cs::RegularType::Map(m) => redirect(&mut m.values, t, &mut shared),
			cs::RegularType::Union(u) => u.variants.iter_mut().for_each(|k| redirect(k, t, &mut shared)),
			cs::RegularType::Record(r) => r.fields.iter_mut().for_each(|f| redirect(&mut f.type_, t, &mut shared)),
			_ => {}
		}
	}
	shared
}

fn key_sequence(text: &str) -> Result<Vec<String>, String> {
	// scan JSON text; a string followed (after whitespace) by ':' is a key
	let b = text.as_bytes();
	let mut i = 0;
	let mut keys = Vec::new();
	while i < b.len() {
		if b[i] == b'"' {
			let start = i;
			i += 1;
			while i < b.len() && b[i] != b'"' {
				if b[i] == b'\\' {
					i += 1;
				}
				i += 1;
			}
			if i >= b.len() {
				return Err("unterminated string".into());
			}
			let raw = &text[start..=i];
			i += 1;
			let mut j = i;
			while j < b.len() && (b[j] as char).is_ascii_whitespace() {
				j += 1;
			}
			if j < b.len() && b[j] == b':' {
				let k: String = serde_json::from_str(raw).map_err(|e| e.to_string())?;
				keys.push(k);
			}
		} else {
			i += 1;
		}
	}
	Ok(keys)
}

fn has_whitespace_outside_strings(text: &str) -> bool {
	let b = text.as_bytes();
	let mut i = 0;
	while i < b.len() {
		if b[i] == b'"' {
			i += 1;
			while i < b.len() && b[i] != b'"' {
				if b[i] == b'\\' {
					i += 1;
				}
				i += 1;
			}
			i += 1;
		} else {
			if (b[i] as char).is_ascii_whitespace() {
				return true;
			}
			i += 1;
		}
	}
	false
}

fn check_regenerated(ctx: &mut Ctx, what: &str, rendered: &str, original: &MSchema, orig_fp: Option<[u8; 8]>) {
	// crate parser
	match rendered.parse::<SchemaMut>() {
		Ok(back) => match unfold(back.nodes()) {
			Ok(u) => {
				if u != *original {
					ctx.violation(format!("C09/regenerated-json-denotes-different-schema/{what}"), format!("original graph unfolds to {}\n rendered JSON {rendered}\n parses back to {}", spell_plain(original), spell_plain(&u)));
				}
				if let (Some(fp), Ok(fp2)) = (orig_fp, back.canonical_form_rabin_fingerprint()) {
					if fp != fp2 {
						ctx.violation(format!("C09/regenerated-json-different-fingerprint/{what}"), format!("rendered {rendered}"));
					}
				}
			}
			Err(e) => ctx.violation(format!("C09/regenerated-json-not-unfoldable/{what}"), format!("rendered {rendered}: {e}")),
		},
		Err(e) => ctx.violation(format!("C09/regenerated-json-rejected-by-crate/{what}"), format!("original {}\n rendered {rendered}: {e}", spell_plain(original))),
	}
	// the harness's own reader with the specification's name resolution
	match parse_json_schema(rendered) {
		Ok(m) => {
			let n = normalize_first_occurrence(&m);
			if n != *original {
				ctx.violation(format!("C09/regenerated-json-denotes-different-schema-per-spec/{what}"), format!("original graph unfolds to {}\n rendered JSON {rendered}\n reads (spec name resolution) as {}", spell_plain(original), spell_plain(&n)));
			}
		}
		Err(e) => ctx.violation(format!("C09/regenerated-json-invalid-per-spec/{what}"), format!("rendered {rendered}: {e}")),
	}
	if has_whitespace_outside_strings(rendered) {
		ctx.violation(format!("C09/json-not-minified/{what}"), rendered.to_string());
	}
}

pub fn run(tape: &[u8], ctx: &mut Ctx) {
	let mut t = Tape::new(tape);
	let mut cfg = GenCfg::default();
	cfg.wide_decimals = true;
	let ast0 = SchemaGen::new(&mut t, cfg).gen();
	let f = schema_labels(&ast0, ctx);
	let mode = t.below(8);
	match mode {
		0 | 1 => {
			// (a) parsed, unedited
			ctx.label("mode:parsed-preserved");
			let ast = if t.chance(60) { make_forward(&mut t, &ast0).unwrap_or_else(|| ast0.clone()) } else { ast0.clone() };
			let (text, used) = {
				let mut sp = Speller::with_tape(&mut t, true);
				sp.omit_zero_scale = false;
				let x = sp.spell(&ast);
				(x, sp.used)
			};
			ctx.nontrivial = text.contains("\"doc\"") || text.contains("customProp") || text.contains("aliases") || used.contains("attr-order");
			ctx.hash_case(&text);
			if ctx.want_sample {
				ctx.sample = Some(serde_json::json!({"mode": "parsed-preserved", "document": trunc(&text, 700)}));
			}
			let s = match text.parse::<serde_avro_fast::Schema>() {
				Ok(s) => s,
				Err(e) => {
					ctx.violation("C09/valid-document-rejected", format!("{text}: {e}"));
					return;
				}
			};
			let j = s.json();
			if has_whitespace_outside_strings(j) {
				ctx.violation("C09/json-not-minified/parsed", j.to_string());
			}
			let a: Result<serde_json::Value, _> = serde_json::from_str(&text);
			let b: Result<serde_json::Value, _> = serde_json::from_str(j);
			match (a, b) {
				(Ok(a), Ok(b)) => {
					if a != b {
						ctx.violation("C09/preserved-json-differs", format!("document {text}\n json() {j}"));
					}
				}
				(_, Err(e)) => ctx.violation("C09/preserved-json-invalid", format!("json() {j}: {e}")),
				(Err(e), _) => ctx.violation("harness/speller-invalid-json", format!("{text}: {e}")),
			}
			match (key_sequence(&text), key_sequence(j)) {
				(Ok(ka), Ok(kb)) => {
					if ka != kb {
						ctx.violation("C09/preserved-json-key-sequence-differs", format!("document {text}\n json() {j}"));
					}
				}
				_ => ctx.violation("harness/key-scan", "could not scan keys"),
			}
		}
		7 => {
			// (c) inexpressible: cycle through unnamed nodes only
			ctx.label("mode:unnamed-cycle");
			let mut nodes = to_nodes(&ast0);
			// pick an array/map/union node and point one of its keys at itself or an unnamed ancestor
			let cands: Vec<usize> = nodes.iter().enumerate().filter(|(_, n)| matches!(n.type_, cs::RegularType::Array(_) | cs::RegularType::Map(_) | cs::RegularType::Union(_))).map(|(i, _)| i).collect();
			let target = if cands.is_empty() {
				// make one at the root
				nodes = vec![cs::SchemaNode::new(cs::RegularType::Array(cs::Array::new(cs::SchemaKey::from_idx(0))))];
				0
			} else {
				let i = *t.pick(&cands);
				let me = cs::SchemaKey::from_idx(i);
				match &mut nodes[i].type_ {
					cs::RegularType::Array(a) => a.items = me,
					cs::RegularType::Map(m) => m.values = me,
					cs::RegularType::Union(u) => {
						if u.variants.is_empty() {
							u.variants.push(me)
						} else {
							let k = t.below(u.variants.len());
							u.variants[k] = me;
						}
					}
					_ => {}
				}
				i
			};
			// only meaningful when the cyclic node is reachable from the root
			let reachable = {
				let mut seen = vec![false; nodes.len()];
				let mut st = vec![0usize];
				while let Some(i) = st.pop() {
					if i >= nodes.len() || seen[i] {
						continue;
					}
					seen[i] = true;
					match &nodes[i].type_ {
						cs::RegularType::Array(a) => st.push(a.items.idx()),
						cs::RegularType::Map(m) => st.push(m.values.idx()),
						cs::RegularType::Union(u) => st.extend(u.variants.iter().map(|k| k.idx())),
						cs::RegularType::Record(r) => st.extend(r.fields.iter().map(|f| f.type_.idx())),
						_ => {}
					}
				}
				seen[target]
			};
			ctx.nontrivial = reachable;
			ctx.hash_case(&format!("{nodes:?}"));
			if ctx.want_sample {
				ctx.sample = Some(serde_json::json!({"mode": "unnamed-cycle", "nodes": trunc(&format!("{nodes:?}"), 700), "cyclic_node": target, "reachable_from_root": reachable}));
			}
			if !reachable {
				ctx.label("unnamed-cycle:unreachable");
				return;
			}
			let sm = SchemaMut::from_nodes(nodes);
			if let Ok(j) = serde_json::to_string(&sm) {
				ctx.violation("C09/unnamed-cycle-rendered", format!("graph {:?} rendered as {j}", sm.nodes()));
			}
			if sm.freeze().is_ok() {
				ctx.violation("C09/unnamed-cycle-frozen", "a graph with a cycle through unnamed nodes only was frozen".to_string());
			}
		}
		_ => {
			// (b) built or edited graphs
			let edited = mode == 2;
			let (sm, original): (SchemaMut, MSchema) = if edited {
				ctx.label("mode:parsed-then-edited");
				let text = {
					let mut sp = Speller::with_tape(&mut t, true);
					sp.omit_zero_scale = false;
					sp.spell(&ast0)
				};
				let mut sm = match text.parse::<SchemaMut>() {
					Ok(s) => s,
					Err(e) => {
						ctx.violation("C09/valid-document-rejected", format!("{text}: {e}"));
						return;
					}
				};
				// edit: rename the first record's first field / add a symbol / touch only
				let which = t.below(3);
				for n in sm.nodes_mut().iter_mut() {
					match (&mut n.type_, which) {
						(cs::RegularType::Record(r), 0) if !r.fields.is_empty() => {
							r.fields[0].name.push_str("_edited");
							break;
						}
						(cs::RegularType::Enum(e), 1) => {
							e.symbols.push("EDITED".into());
							break;
						}
						_ => {}
					}
				}
				let orig = match unfold(sm.nodes()) {
					Ok(o) => o,
					Err(e) => {
						ctx.violation("harness/unfold", e);
						return;
					}
				};
				(sm, orig)
			} else {
				ctx.label("mode:built");
				let mut nodes = to_nodes(&ast0);
				let shared = share_unnamed(&mut t, &mut nodes);
				if shared > 0 {
					ctx.label("graph:shared-unnamed-subtree");
				}
				let orig = match unfold(&nodes) {
					Ok(o) => o,
					Err(e) => {
						ctx.violation("harness/unfold", e);
						return;
					}
				};
				(SchemaMut::from_nodes(nodes), orig)
			};
			ctx.nontrivial = f.refs > 0 || f.namespaces.len() >= 2 || f.recursive;
			let fp = sm.canonical_form_rabin_fingerprint().ok();
			let rendered = serde_json::to_string(&sm);
			ctx.hash_case(&format!("{:?}", rendered.as_ref().map_err(|e| e.to_string())));
			if ctx.want_sample {
				ctx.sample = Some(serde_json::json!({"mode": if edited { "parsed-then-edited" } else { "built" }, "graph_unfolds_to": trunc(&spell_plain(&original), 500), "rendered": trunc(&format!("{:?}", rendered.as_ref().map_err(|e| e.to_string())), 500)}));
			}
			match &rendered {
				Ok(j) => check_regenerated(ctx, "serde_json", j, &original, fp),
				Err(e) => ctx.violation("C09/expressible-graph-not-rendered", format!("graph unfolding to {}: {e}", spell_plain(&original))),
			}
			match sm.freeze() {
				Ok(s) => {
					let j = s.json().to_string();
					check_regenerated(ctx, "freeze", &j, &original, Some(*s.rabin_fingerprint()));
					if edited && (j.contains("\"doc\"") || j.contains("customProp")) {
						// not a violation by itself (keys may be kept), but stale JSON is:
						// covered by the unfolding comparison above
					}
				}
				Err(e) => ctx.violation("C09/expressible-graph-not-frozen", format!("graph unfolding to {}: {e}", spell_plain(&original))),
			}
		}
	}
}
