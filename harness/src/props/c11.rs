//! C11 Slice and streamed input decode identically, however the stream is chunked.

use super::c03::{apply_malform, choose_malform};
use super::common::*;
use crate::capture::*;
use crate::driver::Ctx;
use crate::io::ChunkedReader;
use crate::model::*;
use crate::tape::Tape;
use serde::de::DeserializeSeed;
use serde_avro_fast::de::{read::ReaderRead, read::SliceRead, DeserializerConfig, DeserializerState};

pub const RULE: &str = "case = (generated schema, input bytes in {valid encoding in a tape-chosen layout, single-point malformation, valid encoding with random byte edits, arbitrary bytes} followed by a random suffix, target in {generic any-tree, model-directed capture}); each case is decoded from the slice and from chunk-controlled readers for EVERY uniform chunk size 1..=min(len,64), tape-chosen irregular partitions and std BufReader capacities {1,2,3,16,8192}, datum and single-object entry points; \
non-trivial = the input has a multi-byte primitive (varint, length prefix, fixed, float, string data) that a 1-byte chunking splits, i.e. len>=2 and at least one multi-byte segment; distinct = hash of (schema JSON, input bytes)";

#[derive(Debug, Clone, PartialEq)]
enum Outcome {
	Ok(String, usize),
	Err,
}

fn decode_slice_any(cs: &serde_avro_fast::Schema, bytes: &[u8], max_seq: usize) -> Outcome {
	let mut cfg = DeserializerConfig::new(cs);
	cfg.max_seq_size = max_seq;
	let mut st = DeserializerState::with_config(SliceRead::new(bytes), cfg);
	let r = AnySeed.deserialize(st.deserializer());
	let left = {
		use std::io::BufRead;
		let mut rd = st.into_reader();
		rd.fill_buf().map(|b| b.len()).unwrap_or(0)
	};
	match r {
		Ok(v) => Outcome::Ok(format!("{v:?}"), bytes.len() - left),
		Err(_) => Outcome::Err,
	}
}

fn decode_reader_any<R: std::io::BufRead>(cs: &serde_avro_fast::Schema, rd: R, max_seq: usize, consumed: impl FnOnce(R) -> usize) -> Outcome {
	let mut cfg = DeserializerConfig::new(cs);
	cfg.max_seq_size = max_seq;
	let mut rr = ReaderRead::new(rd);
	rr.max_alloc_size = 1 << 20;
	let mut st = DeserializerState::with_config(rr, cfg);
	let r = AnySeed.deserialize(st.deserializer());
	let n = consumed(st.into_reader().into_inner());
	match r {
		Ok(v) => Outcome::Ok(format!("{v:?}"), n),
		Err(_) => Outcome::Err,
	}
}

pub fn run(tape: &[u8], ctx: &mut Ctx) {
	let mut t = Tape::new(tape);
	let Some(case) = gen_schema_case(&mut t, GenCfg::default(), ctx, "C11") else { return };
	let env = Env::new(&case.schema);
	schema_labels(&case.schema, ctx);
	let vcfg = ValCfg { max_str: 80, max_coll: 8, max_nodes: 120, ..ValCfg::default() };
	let value = ValueGen::new(&mut t, &env, vcfg).gen(&case.schema);
	let mut lt = t.clone();
	let (valid, marks) = {
		let mut layout = Layout::Tape(&mut lt);
		let mut enc = Encoder::new(&env, &mut layout);
		let mut out = Vec::new();
		if let Err(e) = enc.encode(&case.schema, &value, &mut out) {
			ctx.violation("harness/model-encode", e);
			return;
		}
		(out, enc.marks)
	};
	let mut t = lt;
	let kind = t.below(8);
	let (mut input, what, is_valid) = match kind {
		0..=3 => (valid.clone(), "valid", true),
		4 => match choose_malform(&mut t, &valid, &marks) {
			Some(m) => (apply_malform(&valid, &m), "malformed", false),
			None => (valid.clone(), "valid", true),
		},
		5 | 6 => {
			let mut b = valid.clone();
			let edits = 1 + t.below(3);
			for _ in 0..edits {
				if b.is_empty() {
					break;
				}
				let i = t.below(b.len());
				b[i] = t.byte();
			}
			(b, "edited", false)
		}
		_ => {
			let n = t.small(60);
			(t.bytes(n), "arbitrary", false)
		}
	};
	ctx.label(format!("input:{what}"));
	// following data that must stay untouched
	let suffix_len = t.small(12);
	let suffix = t.bytes(suffix_len);
	let datum_len = input.len();
	input.extend_from_slice(&suffix);
	let multi = marks.iter().any(|m| m.len >= 2) || (!is_valid && input.len() >= 2);
	ctx.nontrivial = input.len() >= 2 && multi;
	ctx.hash_case(&format!("{}|{}", case.json, hex(&input)));
	if ctx.want_sample {
		ctx.sample = Some(serde_json::json!({"schema": trunc(&case.json, 500), "input_hex": trunc(&hex(&input), 300), "input_kind": what, "datum_len": datum_len, "suffix_len": suffix_len}));
	}
	let max_seq = 4096;
	let base = decode_slice_any(&case.crate_schema, &input, max_seq);
	if is_valid {
		match &base {
			Outcome::Ok(_, n) if *n == datum_len => {}
			other => ctx.violation("C11/valid-datum-slice-outcome", format!("schema {} input {} (datum {} bytes): slice outcome {:?}", case.json, hex(&input), datum_len, other)),
		}
	}
	let mut evals = 1u64;
	let mut check = |ctx: &mut Ctx, o: Outcome, how: String| {
		evals += 1;
		if o != base {
			let class = match (&base, &o) {
				(Outcome::Ok(..), Outcome::Err) => "slice-ok-reader-err",
				(Outcome::Err, Outcome::Ok(..)) => "slice-err-reader-ok",
				(Outcome::Ok(a, _), Outcome::Ok(b, _)) if a != b => "different-value",
				_ => "different-consumption",
			};
			ctx.violation(format!("C11/{class}"), format!("schema {} input {} ({what}): slice {:?} vs reader[{how}] {:?}", case.json, hex(&input), trunc(&format!("{base:?}"), 300), trunc(&format!("{o:?}"), 300)));
		}
	};
	// every uniform chunk size
	for k in 1..=input.len().min(64).max(1) {
		let rd = ChunkedReader::uniform(&input, k);
		let o = decode_reader_any(&case.crate_schema, rd, max_seq, |r| r.consumed());
		check(ctx, o, format!("uniform {k}"));
	}
	// irregular partitions
	for _ in 0..6 {
		let (sizes, tail) = gen_partition(&mut t, input.len());
		let rd = ChunkedReader::new(&input, sizes.clone(), tail);
		let o = decode_reader_any(&case.crate_schema, rd, max_seq, |r| r.consumed());
		check(ctx, o, format!("irregular {sizes:?}/{tail}"));
	}
	// std BufReader capacities over a plain Read; consumption = bytes taken from the
	// BufReader's logical position
	for cap in [1usize, 2, 3, 16, 8192] {
		let cur = std::io::Cursor::new(&input[..]);
		let br = std::io::BufReader::with_capacity(cap, cur);
		let total = input.len();
		let o = decode_reader_any(&case.crate_schema, br, max_seq, |b| {
			let buffered = b.buffer().len();
			let pos = b.get_ref().position() as usize;
			let _ = total;
			pos - buffered
		});
		check(ctx, o, format!("BufReader cap {cap}"));
	}
	// model-directed capture target on valid inputs: same value, same consumption
	if is_valid {
		let cfg = CapCfg::from_tape(&mut t);
		let (a, _) = super::c03::crate_decode_slice(&env, &case.schema, &case.crate_schema, &input, cfg.clone());
		for k in [1usize, 2, 3, 5] {
			let (b, _, over) = super::c03::crate_decode_reader(&env, &case.schema, &case.crate_schema, &input, cfg.clone(), vec![], k);
			evals += 1;
			let same = match (&a, &b) {
				(Ok((va, na)), Ok((vb, nb))) => va.same(vb) && na == nb,
				(Err(_), Err(_)) => true,
				_ => false,
			};
			if !same {
				ctx.violation("C11/capture-target-differs", format!("schema {} input {}: slice {:?} vs reader(chunk {k}) {:?} (capture {:?})", case.json, hex(&input), a, b, cfg));
			}
			if over {
				ctx.violation("C11/bufread-over-consume", "consume beyond buffer");
			}
		}
	}
	// single-object entry points: prepend a header (valid or corrupted)
	{
		let mut so = vec![0xC3, 0x01];
		so.extend_from_slice(case.crate_schema.rabin_fingerprint());
		if t.chance(40) {
			let i = t.below(10);
			so[i] ^= 1 << t.below(8);
			ctx.label("single-object:bad-header");
		}
		so.extend_from_slice(&input);
		if t.chance(30) {
			let n = t.below(so.len() + 1);
			so.truncate(n);
		}
		let a = serde_avro_fast::from_single_object_slice::<AnyOwned>(&so, &case.crate_schema).map(|v| format!("{:?}", v.0)).map_err(|_| ());
		for k in [1usize, 2, 7, 10, 11] {
			let rd = ChunkedReader::uniform(&so, k);
			let b = serde_avro_fast::from_single_object_reader::<_, AnyOwned>(rd, &case.crate_schema).map(|v| format!("{:?}", v.0)).map_err(|_| ());
			evals += 1;
			if a != b {
				ctx.violation("C11/single-object-differs", format!("schema {} single-object input {}: slice {:?} vs reader(chunk {k}) {:?}", case.json, hex(&so), a, b));
			}
		}
	}
	ctx.sub_evaluations = evals;
}
