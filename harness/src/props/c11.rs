//! C11 Slice and streamed input decode identically, however the stream is chunked.

use super::c03::{apply_malform, choose_malform};
use super::common::*;
use crate::capture::*;
use crate::driver::Ctx;
use crate::io::ChunkedReader;
use crate::model::container::{ref_write_block, ref_write_header, Codec, MetaLayout, ALL_CODECS};
use crate::model::*;
use crate::tape::Tape;
use serde::de::DeserializeSeed;
use serde_avro_fast::de::{read::ReaderRead, read::SliceRead, DeserializerConfig, DeserializerState};

pub const RULE: &str = "case = (generated schema, input bytes in {valid encoding in a tape-chosen layout, single-point malformation, valid encoding with random byte edits, arbitrary bytes} followed by a random suffix, target in {generic any-tree, model-directed capture}); each case is decoded from the slice and from chunk-controlled readers for EVERY uniform chunk size 1..=min(len,64), tape-chosen irregular partitions and std BufReader capacities {1,2,3,16,8192}, datum, single-object and container-file entry points (reference-written files in every codec, healthy, byte-edited or truncated); \
non-trivial = the input has a multi-byte primitive (varint, length prefix, fixed, float, string data) that a 1-byte chunking splits, i.e. len>=2 and at least one multi-byte segment; distinct = hash of (schema JSON, input bytes)";

#[derive(Debug, Clone, PartialEq)]
enum Outcome {
	Ok(String, usize),
	Err,
}

fn decode_slice_any(cs: &serde_avro_fast::Schema, bytes: &[u8], max_seq: usize) -> Outcome {
	let mut cfg = DeserializerConfig::new(cs);
	cfg.max_seq_size = max_seq;
	let mut st = DeserializerState::with_config(SliceRead::new(bytes), cfg);
	let r = AnySeed.deserialize(st.deserializer());
	let left = {
		use std::io::BufRead;
		let mut rd = st.into_reader();
		rd.fill_buf().map(|b| b.len()).unwrap_or(0)
	};
	match r {
		Ok(v) => Outcome::Ok(format!("{v:?}"), bytes.len() - left),
		Err(_) => Outcome::Err,
	}
}

fn decode_reader_any<R: std::io::BufRead>(cs: &serde_avro_fast::Schema, rd: R, max_seq: usize, consumed: impl FnOnce(R) -> usize) -> Outcome {
	let mut cfg = DeserializerConfig::new(cs);
	cfg.max_seq_size = max_seq;
	let mut rr = ReaderRead::new(rd);
	rr.max_alloc_size = 1 << 20;
	let mut st = DeserializerState::with_config(rr, cfg);
	let r = AnySeed.deserialize(st.deserializer());
	let n = consumed(st.into_reader().into_inner());
	match r {
		Ok(v) => Outcome::Ok(format!("{v:?}"), n),
		Err(_) => Outcome::Err,
	}
}

pub fn run(tape: &[u8], ctx: &mut Ctx) {
	let mut t = Tape::new(tape);
	let Some(case) = gen_schema_case(&mut t, GenCfg::default(), ctx, "C11") else { return };
	let env = Env::new(&case.schema);
	schema_labels(&case.schema, ctx);
	let vcfg = ValCfg { max_str: 80, max_coll: 8, max_nodes: 120, ..ValCfg::default() };
	let value = ValueGen::new(&mut t, &env, vcfg).gen(&case.schema);
	let mut lt = t.clone();
	let (valid, marks) = {
		let mut layout = Layout::Tape(&mut lt);
		let mut enc = Encoder::new(&env, &mut layout);
		let mut out = Vec::new();
		if let Err(e) = enc.encode(&case.schema, &value, &mut out) {
			ctx.violation("harness/model-encode", e);
			return;
		}
		(out, enc.marks)
	};
	let mut t = lt;
	let kind = t.below(8);
	let (mut input, what, is_valid) = match kind {
		0..=3 => (valid.clone(), "valid", true),
		4 => match choose_malform(&mut t, &valid, &marks) {
			Some(m) => (apply_malform(&valid, &m), "malformed", false),
			None => (valid.clone(), "valid", true),
		},
		5 | 6 => {
			let mut b = valid.clone();
			let edits = 1 + t.below(3);
			for _ in 0..edits {
				if b.is_empty() {
					break;
				}
				let i = t.below(b.len());
				b[i] = t.byte();
			}
			(b, "edited", false)
		}
		_ => {
			let n = t.small(60);
			(t.bytes(n), "arbitrary", false)
		}
	};
	ctx.label(format!("input:{what}"));
	// following data that must stay untouched
	let suffix_len = t.small(12);
	let suffix = t.bytes(suffix_len);
	let datum_len = input.len();
	input.extend_from_slice(&suffix);
	let multi = marks.iter().any(|m| m.len >= 2) || (!is_valid && input.len() >= 2);
	ctx.nontrivial = input.len() >= 2 && multi;
	ctx.hash_case(&format!("{}|{}", case.json, hex(&input)));
	if ctx.want_sample {
		ctx.sample = Some(serde_json::json!({"schema": trunc(&case.json, 500), "input_hex": trunc(&hex(&input), 300), "input_kind": what, "datum_len": datum_len, "suffix_len": suffix_len}));
	}
	let max_seq = 4096;
	let base = decode_slice_any(&case.crate_schema, &input, max_seq);
	if is_valid {
		match &base {
			Outcome::Ok(_, n) if *n == datum_len => {}
			other => ctx.violation("C11/valid-datum-slice-outcome", format!("schema {} input {} (datum {} bytes): slice outcome {:?}", case.json, hex(&input), datum_len, other)),
		}
	}
	let mut evals = 1u64;
	let mut check = |ctx: &mut Ctx, o: Outcome, how: String| {
		evals += 1;
		if o != base {
			let class = match (&base, &o) {
				(Outcome::Ok(..), Outcome::Err) => "slice-ok-reader-err",
				(Outcome::Err, Outcome::Ok(..)) => "slice-err-reader-ok",
				(Outcome::Ok(a, _), Outcome::Ok(b, _)) if a != b => "different-value",
				_ => "different-consumption",
			};
			ctx.violation(format!("C11/{class}"), format!("schema {} input {} ({what}): slice {:?} vs reader[{how}] {:?}", case.json, hex(&input), trunc(&format!("{base:?}"), 300), trunc(&format!("{o:?}"), 300)));
		}
	};
	// every uniform chunk size
	for k in 1..=input.len().min(64).max(1) {
		let rd = ChunkedReader::uniform(&input, k);
		let o = decode_reader_any(&case.crate_schema, rd, max_seq, |r| r.consumed());
		check(ctx, o, format!("uniform {k}"));
	}
	// irregular partitions
	for _ in 0..6 {
		let (sizes, tail) = gen_partition(&mut t, input.len());
		let rd = ChunkedReader::new(&input, sizes.clone(), tail);
		let o = decode_reader_any(&case.crate_schema, rd, max_seq, |r| r.consumed());
		check(ctx, o, format!("irregular {sizes:?}/{tail}"));
	}
	// std BufReader capacities over a plain Read; consumption = bytes taken from the
	// BufReader's logical position
	for cap in [1usize, 2, 3, 16, 8192] {
		let cur = std::io::Cursor::new(&input[..]);
		let br = std::io::BufReader::with_capacity(cap, cur);
		let total = input.len();
		let o = decode_reader_any(&case.crate_schema, br, max_seq, |b| {
			let buffered = b.buffer().len();
			let pos = b.get_ref().position() as usize;
			let _ = total;
			pos - buffered
		});
		check(ctx, o, format!("BufReader cap {cap}"));
	}
	// a target that ignores the whole datum (skipping has its own code paths, per reader kind)
	{
		let ign_slice = {
			let mut cfg = DeserializerConfig::new(&case.crate_schema);
			cfg.max_seq_size = max_seq;
			let mut st = DeserializerState::with_config(SliceRead::new(&input), cfg);
			let r = <serde::de::IgnoredAny as serde::Deserialize>::deserialize(st.deserializer());
			let left = {
				use std::io::BufRead;
				let mut rd = st.into_reader();
				rd.fill_buf().map(|b| b.len()).unwrap_or(0)
			};
			r.map(|_| input.len() - left).map_err(|_| ())
		};
		for k in [1usize, 2, 3, 5, 8, 13] {
			let mut cfg = DeserializerConfig::new(&case.crate_schema);
			cfg.max_seq_size = max_seq;
			let mut rr = ReaderRead::new(ChunkedReader::uniform(&input, k));
			rr.max_alloc_size = 1 << 20;
			let mut st = DeserializerState::with_config(rr, cfg);
			let r = <serde::de::IgnoredAny as serde::Deserialize>::deserialize(st.deserializer());
			let rd = st.into_reader().into_inner();
			let o = r.map(|_| rd.consumed()).map_err(|_| ());
			evals += 1;
			if o != ign_slice || rd.over_consumed {
				ctx.violation("C11/ignoring-target-differs", format!("schema {} input {} ({what}) ignored as a whole: slice {:?} vs reader(chunk {k}) {:?}{}", case.json, hex(&input), ign_slice, o, if rd.over_consumed { " (consume() beyond the exposed buffer)" } else { "" }));
				break;
			}
		}
	}
	// model-directed capture target on valid inputs: same value, same consumption
	if is_valid {
		let cfg = CapCfg::from_tape(&mut t);
		let (a, _) = super::c03::crate_decode_slice(&env, &case.schema, &case.crate_schema, &input, cfg.clone());
		for k in [1usize, 2, 3, 5] {
			let (b, _, over) = super::c03::crate_decode_reader(&env, &case.schema, &case.crate_schema, &input, cfg.clone(), vec![], k);
			evals += 1;
			let same = match (&a, &b) {
				(Ok((va, na)), Ok((vb, nb))) => va.same(vb) && na == nb,
				(Err(_), Err(_)) => true,
				_ => false,
			};
			if !same {
				ctx.violation("C11/capture-target-differs", format!("schema {} input {}: slice {:?} vs reader(chunk {k}) {:?} (capture {:?})", case.json, hex(&input), a, b, cfg));
			}
			if over {
				ctx.violation("C11/bufread-over-consume", "consume beyond buffer");
			}
		}
	}
	// single-object entry points: prepend a header (valid or corrupted)
	{
		let mut so = vec![0xC3, 0x01];
		so.extend_from_slice(case.crate_schema.rabin_fingerprint());
		if t.chance(40) {
			let i = t.below(10);
			so[i] ^= 1 << t.below(8);
			ctx.label("single-object:bad-header");
		}
		so.extend_from_slice(&input);
		if t.chance(30) {
			let n = t.below(so.len() + 1);
			so.truncate(n);
		}
		let a = serde_avro_fast::from_single_object_slice::<AnyOwned>(&so, &case.crate_schema).map(|v| format!("{:?}", v.0)).map_err(|_| ());
		for k in [1usize, 2, 7, 10, 11] {
			let rd = ChunkedReader::uniform(&so, k);
			let b = serde_avro_fast::from_single_object_reader::<_, AnyOwned>(rd, &case.crate_schema).map(|v| format!("{:?}", v.0)).map_err(|_| ());
			evals += 1;
			if a != b {
				ctx.violation("C11/single-object-differs", format!("schema {} single-object input {}: slice {:?} vs reader(chunk {k}) {:?}", case.json, hex(&so), a, b));
			}
		}
	}
	// container-file input: a reference-written file (every codec), healthy or damaged, read through
	// Reader::from_slice and through chunk-controlled readers; the sequence of results must be the same
	{
		let codec = *t.pick(ALL_CODECS);
		let sync: [u8; 16] = std::array::from_fn(|_| t.byte());
		let mut meta: Vec<(String, Vec<u8>)> = vec![("avro.schema".to_string(), case.json.clone().into_bytes())];
		if codec != Codec::Null || t.bool() {
			meta.push(("avro.codec".to_string(), codec.name().as_bytes().to_vec()));
		}
		let mut file = ref_write_header(&meta, &MetaLayout { partition: vec![], negative: vec![] }, &sync);
		let nblocks = t.small(3);
		let mut nvalues = 0;
		let mut payloads: Vec<(usize, usize)> = Vec::new();
		let mut payload_hit = false;
		for _ in 0..nblocks {
			let n = t.small(3);
			let mut data = Vec::new();
			for _ in 0..n {
				let v = ValueGen::new(&mut t, &env, ValCfg { max_str: 40, max_coll: 4, max_nodes: 60, ..ValCfg::default() }).gen(&case.schema);
				match encode_single(&env, &case.schema, &v) {
					Ok(b) => data.extend_from_slice(&b),
					Err(e) => {
						ctx.violation("harness/model-encode", e);
						return;
					}
				}
			}
			nvalues += n;
			let before = file.len();
			ref_write_block(&mut file, codec, n, &data, &sync);
			// byte range of the (compressed) block data: after the two varints, before the sync marker
			let mut d = Dec::new(&file[before..]);
			let _ = d.long();
			let clen = d.long().unwrap_or(0) as usize;
			payloads.push((file.len() - 16 - clen, file.len() - 16));
		}
		let damage = t.below(4);
		match damage {
			0 | 1 => {}
			2 => {
				for _ in 0..1 + t.below(3) {
					let i = t.below(file.len());
					file[i] = t.byte();
					payload_hit |= codec != Codec::Null && payloads.iter().any(|(a, b)| i >= *a && i < *b);
				}
			}
			_ => {
				let n = t.below(file.len() + 1);
				file.truncate(n);
			}
		}
		ctx.label(format!("container:{}:{}", codec.name(), ["healthy", "healthy", "edited", "truncated"][damage]));
		fn drive<'de, R, E>(rd: Result<serde_avro_fast::object_container_file_encoding::Reader<R>, E>) -> Vec<String>
		where
			R: serde_avro_fast::de::read::ReadSlice<'de> + serde_avro_fast::de::read::take::Take + std::io::BufRead,
			<R as serde_avro_fast::de::read::take::Take>::Take: serde_avro_fast::de::read::ReadSlice<'de> + std::io::BufRead,
		{
			let mut rd = match rd {
				Ok(r) => r,
				Err(_) => return vec!["open-error".into()],
			};
			let mut out = Vec::new();
			for _ in 0..24 {
				let ds = DigestState::new(20_000);
				match rd.deserialize_seed_next(Digest { state: &ds }) {
					Ok(Some(())) => out.push(format!("value {:016x}/{}", ds.hash.get(), ds.events.get())),
					Ok(None) => {
						out.push("end".into());
						break;
					}
					Err(_) => {
						// what follows an error is not compared (the statement speaks of the outcome)
						out.push("error".into());
						break;
					}
				}
			}
			out
		}
		// Files that end without an error must give identical sequences. When both inputs end in
		// an error (damaged file) the values delivered before it must agree position by position,
		// but the error may surface at a different value: a slice knows up front that a block's
		// advertised size exceeds the input, a stream only finds out when it runs dry (the values
		// before the error are a genuine prefix either way, which is what C17 demands).
		// (A sequence without a terminal was cut by the harness after 24 values: its error, if any,
		// lies further on, so it is compared like one that ends in an error.)
		fn same_outcome(a: &[String], b: &[String]) -> bool {
			let ended = |s: &[String]| s.last().map(|x| x.as_str()) == Some("end");
			let values = |s: &'_ [String]| -> usize { s.iter().take_while(|x| x.starts_with("value")).count() };
			if ended(a) || ended(b) {
				a == b
			} else {
				let n = values(a).min(values(b));
				a[..n] == b[..n]
			}
		}
		let a = drive(serde_avro_fast::object_container_file_encoding::Reader::from_slice(&file));
		if damage < 2 && (a.len() != nvalues + 1 || a.last().map(|s| s.as_str()) != Some("end") || a.iter().any(|s| s == "error")) {
			ctx.violation("C11/healthy-container-slice-outcome", format!("schema {} file {} ({} values, codec {}): slice results {:?}", case.json, trunc(&hex(&file), 600), nvalues, codec.name(), a));
		}
		for k in [1usize, 2, 3, 7, 16, 61, 4096] {
			let mut rd = ChunkedReader::uniform(&file, k);
			rd.call_budget = 64 * (file.len() as u64 + 16) + 100_000;
			let b = drive(serde_avro_fast::object_container_file_encoding::Reader::from_reader(rd));
			evals += 1;
			if !same_outcome(&a, &b) {
				ctx.violation(format!("C11/container-differs{}", if payload_hit { format!("/{}-corrupt-compressed-payload", codec.name()) } else { String::new() }), format!("schema {} container file {} (codec {}, {}): slice {:?} vs reader(chunk {k}) {:?}", case.json, trunc(&hex(&file), 600), codec.name(), ["healthy", "healthy", "edited", "truncated"][damage], a, b));
				break;
			}
		}
		{
			let br = std::io::BufReader::with_capacity(1 + t.below(9), std::io::Cursor::new(&file[..]));
			let b = drive(serde_avro_fast::object_container_file_encoding::Reader::from_reader(br));
			evals += 1;
			if !same_outcome(&a, &b) {
				ctx.violation(format!("C11/container-differs{}", if payload_hit { format!("/{}-corrupt-compressed-payload", codec.name()) } else { String::new() }), format!("schema {} container file {} (codec {}): slice {:?} vs BufReader {:?}", case.json, trunc(&hex(&file), 600), codec.name(), a, b));
			}
		}
	}
	// rarely: one large length-delimited value (0.5-1.5 MiB) under the default reader configuration -
	// a valid datum must not depend on how much of it the reader happens to have buffered
	if t.byte() >= 252 {
		let len = 500_000 + t.below(1_000_000);
		let as_string = t.bool();
		let payload: Vec<u8> = if as_string { std::iter::repeat(b'a' + t.below(26) as u8).take(len).collect() } else { crate::tape::XorShift::new(t.u32() as u64).fill(len) };
		let mut datum = Vec::with_capacity(len + 8);
		write_long(len as i64, &mut datum);
		datum.extend_from_slice(&payload);
		let schema: serde_avro_fast::Schema = if as_string { "\"string\"" } else { "\"bytes\"" }.parse().expect("primitive schema");
		ctx.label("big-value:0.5-1.5MiB");
		let a = serde_avro_fast::from_datum_slice::<serde_bytes::ByteBuf>(&datum, &schema).map(|b| crate::tape::fnv64(&b)).map_err(|_| ());
		for cap in [1usize << t.below(4), 4096, 8192, 65536] {
			let br = std::io::BufReader::with_capacity(cap, std::io::Cursor::new(&datum[..]));
			let b = serde_avro_fast::from_datum_reader::<_, serde_bytes::ByteBuf>(br, &schema).map(|b| crate::tape::fnv64(&b)).map_err(|_| ());
			evals += 1;
			if a != b || a != Ok(crate::tape::fnv64(&payload)) {
				ctx.violation("C11/big-value-differs", format!("schema {} with one value of {len} bytes: slice {:?} vs BufReader(capacity {cap}) {:?} (expected hash {:x})", if as_string { "string" } else { "bytes" }, a, b, crate::tape::fnv64(&payload)));
				break;
			}
		}
	}
	ctx.sub_evaluations = evals;
}
