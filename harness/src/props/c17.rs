//! C17 Container reader on damaged files: genuine prefix only, corruption detected.

use super::common::*;
use super::container::*;
use crate::capture::*;
use crate::driver::Ctx;
use crate::io::ChunkedReader;
use crate::model::container::*;
use crate::model::*;
use crate::tape::Tape;
use serde_avro_fast::ser::SerializerConfig;

pub const RULE: &str = "case = a valid container file written by the crate (all codecs, small approx_block_size so >=2 blocks are typical, <= ~4 KiB) subjected to: (a) truncation at EVERY byte offset; (b) structured damage with a known expectation: wrong sync marker after a block, object count +-k, block size +-k, snappy CRC or snappy payload bit flip; (c) a tape-chosen byte written at EVERY offset in turn (only totality is asserted: compressed payloads without checksum may legitimately decode differently); (d) an I/O error injected at EVERY fill_buf/read call index of a chunked reader; each through the slice and the reader constructors, calling deserialize_next up to n+4 times; \
non-trivial = the file has >=2 blocks or a compressed codec (so cuts fall inside varints, compressed streams and between data and sync marker); distinct = hash of the file bytes";

fn values_of(nexts: &[Next]) -> Vec<&MValue> {
	nexts.iter().filter_map(|n| if let Next::Value(v) = n { Some(v) } else { None }).collect()
}

/// (a)/(d): values are a prefix of `want`, then no further value; at most one
/// error, followed only by end-of-stream reports.
fn check_prefix_then_stop(nexts: &[Next], want: &[&MValue]) -> Result<usize, String> {
	let mut i = 0;
	let mut stopped = false;
	let mut errs = 0;
	for (pos, n) in nexts.iter().enumerate() {
		match n {
			Next::Value(v) => {
				if stopped {
					return Err(format!("a value was returned at call {pos} after an error / end of stream"));
				}
				if i >= want.len() {
					return Err(format!("value #{i} {v:?} was never written"));
				}
				if !v.same(want[i]) {
					return Err(format!("value #{i}: written {:?}, returned {v:?}", want[i]));
				}
				i += 1;
			}
			Next::End => stopped = true,
			Next::Err(e) => {
				errs += 1;
				if errs > 1 {
					return Err(format!("the unrecoverable error was reported more than once (call {pos}: {e})"));
				}
				// (an error on a call made after end of stream was reported is fine: the
				// reader polls its source again and the source may fail then)
				stopped = true;
			}
		}
	}
	Ok(i)
}

pub fn run(tape: &[u8], ctx: &mut Ctx) {
	let mut t = Tape::new(tape);
	let hc = HistCfg { allow_bad: false, allow_big: false, max_ops: 6, codecs: ALL_CODECS, user_meta: false };
	let Some(mut h) = gen_hist(&mut t, ctx, "C17", &hc) else { return };
	// small blocks so that several blocks are typical
	h.approx = *t.pick(&[0u32, 1, 10, 40, 100]);
	if h.encoded.iter().map(|e| e.len()).sum::<usize>() > 1500 {
		ctx.label("skipped:file-too-large");
		return;
	}
	let env = Env::new(&h.case.schema);
	ctx.label(format!("codec:{}", h.codec.name()));
	let outline = hist_outline(&h);
	let mut sc = SerializerConfig::new(&h.case.crate_schema);
	let mut accepted = Vec::new();
	let bytes = {
		let Ok(mut w) = build_writer(&mut sc, &h, Vec::new()) else { return };
		for op in &h.ops {
			if apply_op(&mut w, &h, op, &mut accepted).is_err() {
				discard(w);
				ctx.label("skipped:write-failed(C05)");
				return;
			}
		}
		match w.into_inner() {
			Ok(b) => b,
			Err(_) => return,
		}
	};
	let want: Vec<&MValue> = accepted.iter().map(|i| &h.values[*i]).collect();
	let Ok(rf) = ref_parse(&bytes) else {
		ctx.label("skipped:file-invalid(C05)");
		return;
	};
	if bytes.len() > 6000 {
		ctx.label("skipped:file-too-large");
		return;
	}
	let cfg = CapCfg::from_tape(&mut t);
	let max_calls = want.len() + 4;
	let mut evals = 0u64;
	ctx.nontrivial = rf.blocks.len() >= 2 || h.codec != Codec::Null;
	ctx.hash_case(&hex(&bytes));
	if ctx.want_sample {
		let mut s = hist_sample(&h);
		s["file_len"] = bytes.len().into();
		s["blocks"] = serde_json::json!(rf.blocks.iter().map(|b| serde_json::json!({"offset": b.offset, "count": b.count, "size": b.size})).collect::<Vec<_>>());
		ctx.sample = Some(s);
	}
	let chunk = 1 + t.below(40);
	// sanity on the intact file
	for via_reader in [false, true] {
		let r = if via_reader { read_bufread(&env, &h.case.schema, ChunkedReader::uniform(&bytes, chunk), &cfg, max_calls) } else { read_slice(&env, &h.case.schema, &bytes, &cfg, max_calls) };
		match r {
			Ok((n, _)) if expect_all(&n, &want).is_ok() => {}
			other => {
				ctx.violation("C17/intact-file-misread", format!("schema {} {outline}: {:?}", h.case.json, other.map(|x| x.0)));
				return;
			}
		}
	}
	// (a) every truncation offset
	for cut in 0..bytes.len() {
		let part = &bytes[..cut];
		for via_reader in [false, true] {
			evals += 1;
			let r = if via_reader { read_bufread(&env, &h.case.schema, ChunkedReader::uniform(part, chunk), &cfg, max_calls) } else { read_slice(&env, &h.case.schema, part, &cfg, max_calls) };
			let how = if via_reader { "reader" } else { "slice" };
			match r {
				Err(_) => {
					if cut >= rf.header_len {
						ctx.violation(format!("C17/truncated-file-with-intact-header-rejected/{how}"), format!("schema {} {outline}: cut at {cut} (header is {} bytes)", h.case.json, rf.header_len));
					}
				}
				Ok((nexts, _)) => {
					if let Err(e) = check_prefix_then_stop(&nexts, &want) {
						ctx.violation(format!("C17/truncation/{}/{how}", h.codec.name()), format!("schema {} {outline}: file of {} bytes cut at {cut} (blocks {:?}): {e}; sequence {:?}", h.case.json, bytes.len(), rf.blocks.iter().map(|b| (b.offset, b.end)).collect::<Vec<_>>(), trunc(&format!("{nexts:?}"), 500)));
						ctx.sub_evaluations = evals;
						return;
					}
					// a cut strictly inside the file must not look like a complete file unless it is at a block boundary
					let at_boundary = cut == rf.header_len || rf.blocks.iter().any(|b| b.end == cut);
					let complete = values_of(&nexts).len() == want.len() && !nexts.iter().any(|n| matches!(n, Next::Err(_)));
					if complete && !at_boundary && !want.is_empty() {
						ctx.violation(format!("C17/truncation-unnoticed/{how}"), format!("schema {} {outline}: cut at {cut} of {} yet all values and a clean end of stream", h.case.json, bytes.len()));
					}
				}
			}
		}
	}
	// (b) structured damage
	let nb = rf.blocks.len();
	if nb > 0 {
		for round in 0..7 {
			let bi = t.below(nb);
			let b = &rf.blocks[bi];
			let mut bad = bytes.clone();
			let what;
			match round {
				0 => {
					let i = b.end - 16 + t.below(16);
					bad[i] ^= 1 << t.below(8);
					what = "sync-marker-differs".to_string();
				}
				1 | 2 => {
					// count +- k: re-encode the block header
					let k = 1 + t.below(3) as i64;
					let newc = if round == 1 { b.count + k } else { b.count - k };
					if newc < 0 {
						continue;
					}
					let mut hdr = Vec::new();
					write_long(newc, &mut hdr);
					write_long(b.size as i64, &mut hdr);
					bad.splice(b.offset..b.data_offset, hdr);
					what = if round == 1 { "count-too-large".to_string() } else { "count-too-small".to_string() };
					if newc == 0 && b.data.is_empty() {
						continue;
					}
				}
				3 | 4 => {
					let k = 1 + t.below(3) as i64;
					let news = if round == 3 { b.size as i64 + k } else { b.size as i64 - k };
					if news < 0 {
						continue;
					}
					let mut hdr = Vec::new();
					write_long(b.count, &mut hdr);
					write_long(news, &mut hdr);
					bad.splice(b.offset..b.data_offset, hdr);
					what = if round == 3 { "size-too-large".to_string() } else { "size-too-small".to_string() };
				}
				5 => {
					// a negative object count: a framing error, reported once, then end of stream
					let newc = -(1 + t.below(3) as i64);
					let mut hdr = Vec::new();
					write_long(newc, &mut hdr);
					write_long(b.size as i64, &mut hdr);
					bad.splice(b.offset..b.data_offset, hdr);
					what = "count-negative".to_string();
				}
				_ => {
					if h.codec != Codec::Snappy || b.size < 5 {
						continue;
					}
					let i = if t.bool() { b.data_offset + b.size - 4 + t.below(4) } else { b.data_offset + t.below(b.size - 4) };
					bad[i] ^= 1 << t.below(8);
					what = "snappy-bit-flip".to_string();
				}
			}
			// zero-sized objects make count changes undetectable by construction (nothing to disagree with)
			if what.starts_with("count-too") && b.data.is_empty() {
				continue;
			}
			if ref_parse(&bad).and_then(|f| ref_values(&env, &h.case.schema, &f)).is_ok() {
				ctx.label("damage:reference-accepts(skipped)");
				continue;
			}
			ctx.label(format!("damage:{what}"));
			for via_reader in [false, true] {
				evals += 1;
				let how = if via_reader { "reader" } else { "slice" };
				let r = if via_reader { read_bufread(&env, &h.case.schema, ChunkedReader::uniform(&bad, chunk), &cfg, max_calls + 8) } else { read_slice(&env, &h.case.schema, &bad, &cfg, max_calls + 8) };
				let Ok((nexts, _)) = r else { continue };
				let got = values_of(&nexts);
				// "never an endless loop": a caller that keeps pulling reaches the end of a finite file
				// (the damage adds at most 3 phantom objects, each worth one error)
				if !nexts.iter().any(|n| matches!(n, Next::End)) {
					ctx.violation(format!("C17/damaged-file-never-ends/{what}/{how}"), format!("schema {} {outline}: block {bi} {what}: {} calls and no end of stream: {:?}", h.case.json, nexts.len(), trunc(&format!("{nexts:?}"), 400)));
				}
				// never a value that was not written: returned values form an in-order subsequence
				let mut wi = 0;
				let mut ok = true;
				for v in &got {
					while wi < want.len() && !v.same(want[wi]) {
						wi += 1;
					}
					if wi >= want.len() {
						ok = false;
						break;
					}
					wi += 1;
				}
				if !ok && what != "snappy-bit-flip" {
					ctx.violation(format!("C17/damage-yields-unwritten-value/{what}/{how}"), format!("schema {} {outline}: block {bi} {what}: returned {:?}, written {:?}", h.case.json, got, want));
				}
				if what == "count-negative" {
					// everything before the damaged block, then exactly one error, then end of stream
					let before: usize = rf.blocks[..bi].iter().map(|b| b.count as usize).sum();
					let errs = nexts.iter().filter(|n| matches!(n, Next::Err(_))).count();
					let first_err = nexts.iter().position(|n| matches!(n, Next::Err(_)));
					let after_ok = first_err.map_or(false, |p| nexts[p + 1..].iter().all(|n| matches!(n, Next::End)));
					if got.len() != before || errs != 1 || !after_ok {
						ctx.violation(format!("C17/framing-error-not-once-then-end/{how}"), format!("schema {} {outline}: block {bi} given the object count {}: expected the {before} earlier values, one error, then end of stream; got {:?}", h.case.json, -1, trunc(&format!("{nexts:?}"), 500)));
					}
				}
				if !nexts.iter().any(|n| matches!(n, Next::Err(_))) {
					ctx.violation(format!("C17/damage-not-reported/{what}/{}/{how}", h.codec.name()), format!("schema {} {outline}: block {bi} (count {}, size {}) {what}: no error in {:?}", h.case.json, b.count, b.size, trunc(&format!("{nexts:?}"), 400)));
				}
			}
		}
	}
	// (a') a block of 64-200 objects (its count needs a two-byte varint), cut at every offset of its header
	if let Some(small) = h.encoded.iter().position(|e| e.len() <= 12) {
		let n = 64 + t.below(137);
		let mut file = bytes[..rf.header_len].to_vec();
		let mut data = Vec::new();
		for _ in 0..n {
			data.extend_from_slice(&h.encoded[small]);
		}
		let block_at = file.len();
		ref_write_block(&mut file, h.codec, n, &data, &rf.sync);
		let want_n: Vec<&MValue> = std::iter::repeat(&h.values[small]).take(n).collect();
		ctx.label("file:block-of-64+-objects");
		for cut in block_at..(block_at + 6).min(file.len()) {
			for via_reader in [false, true] {
				evals += 1;
				let part = &file[..cut];
				let r = if via_reader { read_bufread(&env, &h.case.schema, ChunkedReader::uniform(part, chunk), &cfg, n + 4) } else { read_slice(&env, &h.case.schema, part, &cfg, n + 4) };
				let how = if via_reader { "reader" } else { "slice" };
				if let Ok((nexts, _)) = r {
					if let Err(e) = check_prefix_then_stop(&nexts, &want_n) {
						ctx.violation(format!("C17/truncation/{}/{how}", h.codec.name()), format!("schema {} one block of {n} objects, file of {} bytes cut at {cut} (block header starts at {block_at}): {e}; sequence {:?}", h.case.json, file.len(), trunc(&format!("{nexts:?}"), 300)));
					}
				}
			}
		}
	}
	// (c) arbitrary single-byte corruption at every offset: totality
	let newbyte = t.byte();
	for off in 0..bytes.len() {
		let mut bad = bytes.clone();
		bad[off] = if bad[off] == newbyte { newbyte.wrapping_add(1) } else { newbyte };
		for via_reader in [false, true] {
			evals += 1;
			// non-collecting target with an event budget: a corrupted element count over
			// zero-byte elements legitimately runs up to max_seq_size (1e9 by default)
			if via_reader {
				let mut rd = ChunkedReader::uniform(&bad, chunk);
				// (a corrupted element count over zero-byte elements makes the deserializer poll an exhausted
				// block once per element until the digest's event budget stops it: reads are bounded by
				// the input length plus a constant per event, like in C04)
				rd.call_budget = 50_000 + 200 * bad.len() as u64 + 4 * 200_000 * max_calls as u64;
				let exceeded;
				{
					let r = serde_avro_fast::object_container_file_encoding::Reader::from_reader(&mut rd);
					if let Ok(mut r) = r {
						let _ = drive_reader_digest(&mut r, max_calls, 200_000);
					}
				}
				exceeded = rd.budget_exceeded;
				if exceeded {
					ctx.violation("C17/corruption-unbounded-reads", format!("schema {} {outline}: byte {off} set to {newbyte:#x}", h.case.json));
				}
			} else if let Ok(mut r) = serde_avro_fast::object_container_file_encoding::Reader::from_slice(&bad) {
				let _ = drive_reader_digest(&mut r, max_calls, 200_000);
			}
		}
	}
	// (d) I/O error at every read call index
	{
		let probe = {
			let mut rd = ChunkedReader::uniform(&bytes, chunk);
			let cctx = CapCtx::new(&env, cfg.clone(), None);
			let mut n = 0;
			if let Ok(mut r) = serde_avro_fast::object_container_file_encoding::Reader::from_reader(&mut rd) {
				let _ = drive_reader(&mut r, &cctx, &h.case.schema, max_calls);
			}
			n += rd.fill_calls + rd.read_calls;
			n
		};
		for i in 0..probe.min(400) {
			evals += 1;
			let mut rd = ChunkedReader::uniform(&bytes, chunk);
			rd.fail_at = Some(i);
			match read_bufread(&env, &h.case.schema, rd, &cfg, max_calls) {
				Err(_) => {}
				Ok((nexts, _)) => {
					if let Err(e) = check_prefix_then_stop(&nexts, &want) {
						ctx.violation(format!("C17/io-error/{}", h.codec.name()), format!("schema {} {outline}: read error injected at call {i} (chunk {chunk}): {e}; sequence {:?}", h.case.json, trunc(&format!("{nexts:?}"), 500)));
						ctx.sub_evaluations = evals;
						return;
					}
					if !nexts.iter().any(|n| matches!(n, Next::Err(_))) && values_of(&nexts).len() == want.len() {
						// the failing call index was never reached (reader needed fewer calls): fine
					}
				}
			}
		}
	}
	ctx.sub_evaluations = evals;
	ctx.count("damaged_variants_run", evals);
}
