//! C07 Schema parsing resolves names per the specification; invalid schemas rejected.

use super::common::*;
use crate::driver::Ctx;
use crate::model::*;
use crate::tape::Tape;
use serde_avro_fast::schema::SchemaMut;

pub const RULE: &str = "case = (generated schema AST, one JSON spelling of it: namespace in dotted name / attribute / inherited / explicit empty string, references by simple / full / leading-dot name, optional forward references (one to three definitions moved to a later use; one positive case in sixteen wraps the schema in a record where two types with the SAME simple name in two namespaces are both referenced by their users before either is defined), primitives as string or object, permuted attributes, doc/aliases/default/order/unknown attributes, whitespace, decimal scale omitted when 0) and, for the negative half, one of four single mutations (unknown reference, duplicate definition of a fullname, required attribute removed, record made to contain itself through records only); \
non-trivial = the document has >=2 named types in >=2 namespaces, or an explicit empty namespace, or a forward reference, or a reference spelled from inside a different namespace, or is a negative case; distinct = hash of the document text";

/// Move the definition of a named type to one of its later uses (forward reference).
pub fn make_forward(t: &mut Tape, root: &MSchema) -> Option<MSchema> {
	// collect candidate (ref occurrence index, name): refs not inside the definition of their target
	fn collect(s: &MSchema, open: &mut Vec<String>, idx: &mut usize, out: &mut Vec<(usize, String)>) {
		match &s.ty {
			MType::Ref(n) => {
				if !open.contains(n) {
					out.push((*idx, n.clone()));
				}
				*idx += 1;
			}
			MType::Array(i) | MType::Map(i) => collect(i, open, idx, out),
			MType::Union(bs) => bs.iter().for_each(|b| collect(b, open, idx, out)),
			MType::Record { name, fields } => {
				open.push(name.clone());
				fields.iter().for_each(|(_, f)| collect(f, open, idx, out));
				open.pop();
			}
			_ => {}
		}
	}
	let mut cands = Vec::new();
	collect(root, &mut Vec::new(), &mut 0, &mut cands);
	if cands.is_empty() {
		return None;
	}
	let (target_idx, name) = t.pick(&cands).clone();
	let env = Env::new(root);
	let def = (*env.defs.get(name.as_str())?).clone();
	// the moved definition must not contain the target occurrence (guaranteed by `open` above)
	fn rebuild(s: &MSchema, name: &str, def: &MSchema, target_idx: usize, idx: &mut usize) -> MSchema {
		if s.fullname() == Some(name) && !matches!(s.ty, MType::Ref(_)) {
			// the original definition site becomes a reference; refs inside it are not
			// renumbered consistently, but the target is never inside it
			let mut n = 0;
			count_refs(s, &mut n);
			*idx += n;
			return MSchema::plain(MType::Ref(name.to_string()));
		}
		match &s.ty {
			MType::Ref(_) => {
				let me = *idx;
				*idx += 1;
				if me == target_idx {
					def.clone()
				} else {
					s.clone()
				}
			}
			MType::Array(i) => MSchema { ty: MType::Array(Box::new(rebuild(i, name, def, target_idx, idx))), logical: s.logical.clone() },
			MType::Map(i) => MSchema { ty: MType::Map(Box::new(rebuild(i, name, def, target_idx, idx))), logical: s.logical.clone() },
			MType::Union(bs) => MSchema { ty: MType::Union(bs.iter().map(|b| rebuild(b, name, def, target_idx, idx)).collect()), logical: None },
			MType::Record { name: rn, fields } => MSchema { ty: MType::Record { name: rn.clone(), fields: fields.iter().map(|(n, f)| (n.clone(), rebuild(f, name, def, target_idx, idx))).collect() }, logical: s.logical.clone() },
			_ => s.clone(),
		}
	}
	fn count_refs(s: &MSchema, n: &mut usize) {
		match &s.ty {
			MType::Ref(_) => *n += 1,
			MType::Array(i) | MType::Map(i) => count_refs(i, n),
			MType::Union(bs) => bs.iter().for_each(|b| count_refs(b, n)),
			MType::Record { fields, .. } => fields.iter().for_each(|(_, f)| count_refs(f, n)),
			_ => {}
		}
	}
	// `collect` skipped refs inside their own target but still numbered them: keep the same numbering
	let out = rebuild(root, &name, &def, target_idx, &mut 0);
	// sanity: same set of definitions, every ref resolvable
	let mut a = Vec::new();
	collect_defs(root, &mut a);
	let mut b = Vec::new();
	collect_defs(&out, &mut b);
	a.sort();
	b.sort();
	if a != b {
		return None;
	}
	Some(out)
}

#[derive(Debug, Clone)]
pub enum Neg {
	UnknownRef,
	DuplicateDef,
	MissingAttr(String),
	SelfContaining,
}

fn replace_first_ref(s: &mut MSchema, with: &MSchema) -> bool {
	match &mut s.ty {
		MType::Ref(_) => {
			*s = with.clone();
			true
		}
		MType::Array(i) | MType::Map(i) => replace_first_ref(i, with),
		MType::Union(bs) => bs.iter_mut().any(|b| replace_first_ref(b, with)),
		MType::Record { fields, .. } => fields.iter_mut().any(|(_, f)| replace_first_ref(f, with)),
		_ => false,
	}
}
fn first_record_mut<'a>(s: &'a mut MSchema, skip: &mut usize) -> Option<&'a mut MSchema> {
	if matches!(s.ty, MType::Record { .. }) {
		if *skip == 0 {
			return Some(s);
		}
		*skip -= 1;
	}
	match &mut s.ty {
		MType::Array(i) | MType::Map(i) => first_record_mut(i, skip),
		MType::Union(bs) => {
			for b in bs.iter_mut() {
				if let Some(r) = first_record_mut(b, skip) {
					return Some(r);
				}
			}
			None
		}
		MType::Record { fields, .. } => {
			for (_, f) in fields.iter_mut() {
				if let Some(r) = first_record_mut(f, skip) {
					return Some(r);
				}
			}
			None
		}
		_ => None,
	}
}

/// Remove one required attribute somewhere in a JSON document (textual level)
fn remove_required_attr(t: &mut Tape, text: &str) -> Option<(String, String)> {
	let mut v: serde_json::Value = serde_json::from_str(text).ok()?;
	// collect paths of removable attributes
	fn walk(v: &serde_json::Value, path: &mut Vec<String>, out: &mut Vec<(Vec<String>, String)>, in_fields: bool) {
		match v {
			serde_json::Value::Object(o) => {
				if in_fields {
					for k in ["name", "type"] {
						if o.contains_key(k) {
							out.push((path.clone(), format!("field.{k}")));
						}
					}
					if let Some(ty) = o.get("type") {
						path.push("type".into());
						walk(ty, path, out, false);
						path.pop();
					}
					return;
				}
				let ty = o.get("type").and_then(|t| t.as_str()).unwrap_or("");
				let required: &[&str] = match ty {
					"record" => &["name", "fields", "type"],
					"enum" => &["name", "symbols", "type"],
					"fixed" => &["name", "size", "type"],
					"array" => &["items", "type"],
					"map" => &["values", "type"],
					_ => &["type"],
				};
				for k in required {
					if o.contains_key(*k) {
						out.push((path.clone(), k.to_string()));
					}
				}
				if o.get("logicalType").and_then(|l| l.as_str()) == Some("decimal") && o.contains_key("precision") && (ty == "bytes" || ty == "fixed") {
					out.push((path.clone(), "precision".into()));
				}
				for k in ["items", "values"] {
					if let Some(c) = o.get(k) {
						path.push(k.into());
						walk(c, path, out, false);
						path.pop();
					}
				}
				if let Some(serde_json::Value::Array(fs)) = o.get("fields") {
					for (i, f) in fs.iter().enumerate() {
						path.push("fields".into());
						path.push(i.to_string());
						walk(f, path, out, true);
						path.pop();
						path.pop();
					}
				}
			}
			serde_json::Value::Array(a) => {
				for (i, b) in a.iter().enumerate() {
					path.push(i.to_string());
					walk(b, path, out, false);
					path.pop();
				}
			}
			_ => {}
		}
	}
	let mut cands = Vec::new();
	walk(&v, &mut Vec::new(), &mut cands, false);
	if cands.is_empty() {
		return None;
	}
	let (path, key) = t.pick(&cands).clone();
	let mut cur = &mut v;
	for p in &path {
		cur = match cur {
			serde_json::Value::Object(o) => o.get_mut(p)?,
			serde_json::Value::Array(a) => a.get_mut(p.parse::<usize>().ok()?)?,
			_ => return None,
		};
	}
	let real_key = key.strip_prefix("field.").unwrap_or(&key).to_string();
	cur.as_object_mut()?.remove(&real_key)?;
	Some((serde_json::to_string(&v).ok()?, key))
}

pub fn features_nontrivial(f: &SchemaFeatures, used: &std::collections::HashSet<&'static str>, forward: bool) -> bool {
	(f.named >= 2 && f.namespaces.len() >= 2) || used.contains("ns-empty-reset") || forward || used.contains("ref-full") || used.contains("ref-leading-dot")
}

pub fn run(tape: &[u8], ctx: &mut Ctx) {
	let mut t = Tape::new(tape);
	let mut cfg = GenCfg::default();
	cfg.wide_decimals = true;
	let ast0 = SchemaGen::new(&mut t, cfg).gen();
	let f = schema_labels(&ast0, ctx);
	let negative = t.chance(70);
	if !negative {
		let mut forward = if t.chance(80) { make_forward(&mut t, &ast0) } else { None };
		// sometimes move one or two more definitions (several types pending at once, possibly with the
		// same simple name in different namespaces); the extra choices are drawn from a copy of the tape
		// so that the rest of the case decodes as before
		if forward.is_some() {
			let mut t2 = t.clone();
			let mut more = 0;
			while more < 2 && t2.chance(150) {
				match make_forward(&mut t2, forward.as_ref().unwrap()) {
					Some(f2) => forward = Some(f2),
					None => break,
				}
				more += 1;
			}
			if more > 0 {
				ctx.label("spelling:several-forward-references");
			}
		}
		// one positive case in sixteen (decided on a copy of the tape): two named types with the SAME simple
		// name in two different namespaces, both referenced - from inside their own namespace - before
		// either is defined, wrapped around the generated schema
		let twins = {
			let mut t3 = t.clone();
			if t3.chance(16) && !Env::new(&ast0).defs.keys().any(|k| k.rsplit('.').next().map(|n| n.starts_with("Tw")).unwrap_or(false)) {
				const NS: &[&str] = &["", "a", "a.b", "b", "n_1"];
				let i = t3.below(NS.len());
				let j = (i + 1 + t3.below(NS.len() - 1)) % NS.len();
				let full = |ns: &str, n: &str| if ns.is_empty() { n.to_string() } else { format!("{ns}.{n}") };
				let def = |t3: &mut Tape, name: String| match t3.below(3) {
					0 => MSchema::plain(MType::Enum { name, symbols: vec!["P".into(), "Q".into()] }),
					1 => MSchema::plain(MType::Fixed { name, size: 1 + t3.below(8) }),
					_ => MSchema::plain(MType::Record { name, fields: vec![("v".into(), MSchema::plain(MType::Int))] }),
				};
				let user = |ns: &str, n: &str| MSchema::plain(MType::Record { name: full(ns, n), fields: vec![("x".into(), MSchema::plain(MType::Ref(full(ns, "Tw"))))] });
				let mut fields = vec![("a".to_string(), user(NS[i], "TwA")), ("b".to_string(), user(NS[j], "TwB"))];
				if t3.bool() {
					fields.push(("g".to_string(), forward.clone().unwrap_or_else(|| ast0.clone())));
				}
				let d1 = def(&mut t3, full(NS[i], "Tw"));
				let d2 = def(&mut t3, full(NS[j], "Tw"));
				if t3.bool() {
					fields.push(("d1".to_string(), d1));
					fields.push(("d2".to_string(), d2));
				} else {
					fields.push(("d2".to_string(), d2));
					fields.push(("d1".to_string(), d1));
				}
				Some(MSchema::plain(MType::Record { name: full(NS[t3.below(NS.len())], "TwRoot"), fields }))
			} else {
				None
			}
		};
		if twins.is_some() {
			ctx.label("spelling:same-simple-name-pending-in-two-namespaces");
			forward = twins;
		}
		let is_forward = forward.is_some();
		let ast = forward.unwrap_or_else(|| ast0.clone());
		let (text, used) = {
			let mut sp = Speller::with_tape(&mut t, true);
			let text = sp.spell(&ast);
			(text, sp.used)
		};
		for u in &used {
			ctx.label(format!("spelling:{u}"));
		}
		if is_forward {
			ctx.label("spelling:forward-reference");
		}
		ctx.nontrivial = features_nontrivial(&f, &used, is_forward);
		ctx.hash_case(&text);
		if ctx.want_sample {
			ctx.sample = Some(serde_json::json!({"document": trunc(&text, 900), "spelling_features": used.iter().collect::<Vec<_>>(), "forward_reference": is_forward}));
		}
		let expected = normalize_first_occurrence(&ast);
		match text.parse::<SchemaMut>() {
			Ok(sm) => match unfold(sm.nodes()) {
				Ok(got) => {
					if got != expected {
						ctx.violation("C07/resolved-graph-differs", format!("document {text}\n parsed graph unfolds to {}\n but the specification designates {}", spell_plain(&got), spell_plain(&expected)));
					}
				}
				Err(e) => ctx.violation("C07/parsed-graph-not-unfoldable", format!("document {text}: {e}")),
			},
			Err(e) => {
				let why = if used.contains("decimal-scale-omitted") && e.to_string().contains("scale") { "/decimal-without-scale" } else { "" };
				ctx.violation(format!("C07/valid-document-rejected{why}"), format!("document {text}: {e}"));
			}
		}
		// freezing must also work (the serializer/deserializer need it)
		if let Err(e) = text.parse::<serde_avro_fast::Schema>() {
			if !e.to_string().contains("scale") {
				ctx.violation("C07/valid-document-rejected/freeze", format!("document {text}: {e}"));
			}
		}
	} else {
		let mut ast = ast0.clone();
		let which = t.below(4);
		let (text, neg): (String, Neg) = match which {
			0 => {
				let bad = MSchema::plain(MType::Ref("zz.Undefined".into()));
				if !replace_first_ref(&mut ast, &bad) {
					// no reference to rename: turn a leaf into one by wrapping
					ast = MSchema::plain(MType::Array(Box::new(bad)));
				}
				let mut sp = Speller::with_tape(&mut t, true);
				(sp.spell(&ast), Neg::UnknownRef)
			}
			1 => {
				let mut defs = Vec::new();
				collect_defs(&ast, &mut defs);
				if defs.is_empty() {
					ctx.label("negative:not-applicable");
					return;
				}
				let name = t.pick(&defs).clone();
				let dup = match t.below(3) {
					0 => MSchema::plain(MType::Fixed { name: name.clone(), size: 1 }),
					1 => MSchema::plain(MType::Enum { name: name.clone(), symbols: vec!["A".into()] }),
					_ => MSchema::plain(MType::Record { name: name.clone(), fields: vec![] }),
				};
				// place the second definition after the first: as a new union branch / array wrapper at the root
				let root = std::mem::replace(&mut ast, MSchema::plain(MType::Null));
				ast = MSchema::plain(MType::Record { name: "zz.Wrapper".into(), fields: vec![("first".into(), root), ("second".into(), dup)] });
				let mut sp = Speller::with_tape(&mut t, true);
				(sp.spell(&ast), Neg::DuplicateDef)
			}
			2 => {
				let plain = {
					let mut sp = Speller::with_tape(&mut t, false);
					sp.omit_zero_scale = false;
					sp.spell(&ast)
				};
				match remove_required_attr(&mut t, &plain) {
					Some((text, key)) => (text, Neg::MissingAttr(key)),
					None => {
						ctx.label("negative:not-applicable");
						return;
					}
				}
			}
			_ => {
				let mut nrec = 0;
				fn count(s: &MSchema, n: &mut usize) {
					if matches!(s.ty, MType::Record { .. }) {
						*n += 1;
					}
					match &s.ty {
						MType::Array(i) | MType::Map(i) => count(i, n),
						MType::Union(bs) => bs.iter().for_each(|b| count(b, n)),
						MType::Record { fields, .. } => fields.iter().for_each(|(_, f)| count(f, n)),
						_ => {}
					}
				}
				count(&ast, &mut nrec);
				if nrec == 0 {
					ast = MSchema::plain(MType::Record { name: "zz.Lonely".into(), fields: vec![("x".into(), ast)] });
					nrec = 1;
				}
				let mut skip = t.below(nrec);
				let through = t.bool();
				let rec = first_record_mut(&mut ast, &mut skip).expect("record exists");
				if let MType::Record { name, fields } = &mut rec.ty {
					let me = MSchema::plain(MType::Ref(name.clone()));
					let at = t.below(fields.len() + 1);
					if through {
						fields.insert(at, ("self__".into(), MSchema::plain(MType::Record { name: "zz.Through".into(), fields: vec![("back".into(), me)] })));
					} else {
						fields.insert(at, ("self__".into(), me));
					}
				}
				let mut sp = Speller::with_tape(&mut t, true);
				(sp.spell(&ast), Neg::SelfContaining)
			}
		};
		let label = match &neg {
			Neg::UnknownRef => "unknown-reference".to_string(),
			Neg::DuplicateDef => "duplicate-definition".to_string(),
			Neg::MissingAttr(k) => format!("missing-attribute:{k}"),
			Neg::SelfContaining => "self-containing-record".to_string(),
		};
		ctx.label(format!("negative:{label}"));
		ctx.nontrivial = true;
		ctx.hash_case(&text);
		if ctx.want_sample {
			ctx.sample = Some(serde_json::json!({"document": trunc(&text, 900), "invalid_because": label}));
		}
		// the reference reader must reject it as well, otherwise the mutation is not one
		if parse_json_schema(&text).is_ok() && !matches!(neg, Neg::SelfContaining) {
			ctx.label("negative:model-accepts(skipped)");
			return;
		}
		if text.parse::<SchemaMut>().is_ok() {
			ctx.violation(format!("C07/invalid-document-accepted/{}", label.split(':').next().unwrap_or("")), format!("document {text} ({label}) was accepted"));
		}
		if text.parse::<serde_avro_fast::Schema>().is_ok() {
			ctx.violation(format!("C07/invalid-document-accepted/{}", label.split(':').next().unwrap_or("")), format!("document {text} ({label}) was accepted by Schema::from_str"));
		}
	}
}
