//! C04 Decoding untrusted bytes is total and resource-bounded under configured limits.

use super::common::*;
use crate::alloc::measure;
use crate::capture::*;
use crate::driver::Ctx;
use crate::io::ChunkedReader;
use crate::model::*;
use crate::tape::Tape;
use serde::de::DeserializeSeed;
use serde_avro_fast::de::{read::ReaderRead, read::SliceRead, DeserializerConfig, DeserializerState};

pub const RULE: &str = "case = (schema: generated - incl. recursive ones and zero-byte element types - or one of a few hostile-friendly shapes; input bytes: arbitrary tape bytes, a valid encoding, a valid encoding with random byte edits, or a hostile construction (block counts i64::MIN / +-2^62, lengths 2^62, huge counts over zero-byte elements, endless 0x02 recursion, over-long varints); limits: allowed_depth in [0,128], max_seq_size in {0,1,16,1000}, reader max_alloc_size in {0,1,64,4096,65536}; input as slice or chunked reader; targets IgnoredAny, an event-budgeted non-allocating digest, the same digest hinting deserialize_ignored_any at every node, generic any-tree, the typed-hint capture target (Option on every union, enum by index, integer decimals ...)). Oracle: every call returns; valid encodings nested deeper than allowed_depth, holding a collection longer than max_seq_size, or (reader, chunk smaller than the field) a field larger than max_alloc_size give Err; the slice path with the digest target performs 0 heap allocations on success; reader path peak live heap <= max_alloc_size + 8 KiB; visitor events <= 4*(len+1)*(max_seq_size+1)*(schema nodes+1), also while ignoring; reader calls <= 16*(len+1) + 4*events; \
non-trivial = the input reaches nesting depth >=2, or trips one of the three limits, or is a hostile construction; distinct = hash of (schema JSON, input, limits)";

const HOSTILE_SCHEMAS: &[&str] = &[
	r#"{"type":"array","items":"null"}"#,
	r#"{"type":"map","values":"null"}"#,
	r#"{"type":"array","items":{"type":"record","name":"E","fields":[]}}"#,
	r#"{"type":"record","name":"L","fields":[{"name":"v","type":"int"},{"name":"next","type":["null","L"]}]}"#,
	r#"{"type":"array","items":{"type":"array","items":{"type":"array","items":"string"}}}"#,
	r#"{"type":"record","name":"T","fields":[{"name":"kids","type":{"type":"array","items":"T"}}]}"#,
	r#"{"type":"map","values":{"type":"map","values":"bytes"}}"#,
	r#"["null",{"type":"array","items":{"type":"fixed","name":"Z","size":0}}]"#,
	r#"{"type":"array","items":{"type":"bytes","logicalType":"big-decimal"}}"#,
	r#"{"type":"array","items":{"type":"fixed","name":"D","size":20,"logicalType":"decimal","precision":40,"scale":2}}"#,
	r#"{"type":"array","items":{"type":"enum","name":"En","symbols":["A"]}}"#,
];

const HOSTILE_LONGS: &[i64] = &[i64::MIN, i64::MAX, -(1 << 62), 1 << 62, (1 << 62) + 1, -1, -2, 1 << 31, (1 << 32) + 1, -(1 << 31) - 1, 1_000_000_001, 1000, 1001, 17, 16, 2, 1, 0];

fn hostile_bytes(t: &mut Tape) -> Vec<u8> {
	let mut out = Vec::new();
	match t.below(5) {
		0 => {
			// endless "branch 1" / "one more element"
			let b = *t.pick(&[0x02u8, 0x01, 0x04]);
			out = vec![b; 1 + t.below(400)];
		}
		1 => {
			// over-long varint
			out = vec![0x80 | t.byte(); 9 + t.below(8)];
			out.push(t.byte() & 0x7f);
		}
		_ => {}
	}
	let n = 1 + t.below(8);
	for _ in 0..n {
		match t.below(4) {
			0 | 1 => write_long(*t.pick(HOSTILE_LONGS), &mut out),
			2 => write_long(gen_i64(t), &mut out),
			_ => out.push(t.byte()),
		}
	}
	out
}

struct Limits {
	allowed_depth: usize,
	max_seq_size: usize,
	max_alloc_size: usize,
}

fn max_coll(v: &MValue) -> usize {
	match v {
		MValue::Array(a) => a.len().max(a.iter().map(max_coll).max().unwrap_or(0)),
		MValue::Map(a) => a.len().max(a.iter().map(|(_, x)| max_coll(x)).max().unwrap_or(0)),
		MValue::Union(_, x) => max_coll(x),
		MValue::Record(a) => a.iter().map(max_coll).max().unwrap_or(0),
		_ => 0,
	}
}
fn max_field(v: &MValue) -> usize {
	match v {
		MValue::Array(a) => a.iter().map(max_field).max().unwrap_or(0),
		MValue::Map(a) => a.iter().map(|(k, x)| k.len().max(max_field(x))).max().unwrap_or(0),
		MValue::Union(_, x) => max_field(x),
		MValue::Record(a) => a.iter().map(max_field).max().unwrap_or(0),
		MValue::Bytes(b) | MValue::Fixed(b) => b.len(),
		MValue::Str(s) => s.len(),
		_ => 0,
	}
}

pub fn run(tape: &[u8], ctx: &mut Ctx) {
	let mut t = Tape::new(tape);
	let hostile_schema = t.chance(70);
	let (ms, json, cs) = if hostile_schema {
		let json = (*t.pick(HOSTILE_SCHEMAS)).to_string();
		let Ok(ms) = parse_json_schema(&json) else { return };
		let Ok(cs) = json.parse::<serde_avro_fast::Schema>() else {
			ctx.violation("C04/valid-schema-rejected", json);
			return;
		};
		(ms, json, cs)
	} else {
		let mut cfg = GenCfg::default();
		cfg.wide_decimals = true;
		let Some(case) = gen_schema_case(&mut t, cfg, ctx, "C04") else { return };
		(case.schema, case.json, case.crate_schema)
	};
	let env = Env::new(&ms);
	let nodes = count_nodes(&ms) as u64;
	// input
	let kind = t.below(6);
	let mut known: Option<(MValue, usize)> = None;
	let input: Vec<u8> = match kind {
		0 => {
			let n = t.small(80);
			t.bytes(n)
		}
		1 | 2 => {
			let v = ValueGen::new(&mut t, &env, ValCfg { max_depth: 60, max_coll: 20, max_str: 200, max_nodes: 300 }).gen(&ms);
			let mut lt = t.clone();
			let mut layout = Layout::Tape(&mut lt);
			let mut enc = Encoder::new(&env, &mut layout);
			let mut out = Vec::new();
			if enc.encode(&ms, &v, &mut out).is_err() {
				return;
			}
			t = lt;
			if kind == 1 {
				known = Some((v, out.len()));
			} else {
				let edits = 1 + t.below(4);
				for _ in 0..edits {
					if out.is_empty() {
						break;
					}
					let i = t.below(out.len());
					out[i] = t.byte();
				}
			}
			out
		}
		_ => hostile_bytes(&mut t),
	};
	let what = match kind {
		0 => "arbitrary",
		1 => "valid",
		2 => "edited",
		_ => "hostile",
	};
	ctx.label(format!("input:{what}"));
	let lim = Limits { allowed_depth: *t.pick(&[0usize, 1, 2, 3, 5, 8, 16, 64, 128]), max_seq_size: *t.pick(&[0usize, 1, 16, 1000]), max_alloc_size: *t.pick(&[0usize, 1, 64, 4096, 65536]) };
	let chunk = *t.pick(&[1usize, 2, 3, 8, 64, 4096]);
	let len = input.len() as u64;
	let event_budget = 4 * (len + 1) * (lim.max_seq_size as u64 + 1) * (nodes + 1);
	let mut cfg = DeserializerConfig::new(&cs);
	cfg.allowed_depth = lim.allowed_depth;
	cfg.max_seq_size = lim.max_seq_size;
	let mut tripped = Vec::new();

	// --- slice, digest target, allocation accounting
	let ds = DigestState::new(event_budget);
	let (r_slice, st) = measure(|| {
		let mut stt = DeserializerState::with_config(SliceRead::new(&input), cfg.clone());
		Digest { state: &ds }.deserialize(stt.deserializer()).map_err(|e| e.to_string().contains("event budget exceeded"))
	});
	match &r_slice {
		Ok(()) => {
			if st.allocations != 0 {
				ctx.violation("C04/slice-path-allocates", format!("schema {json} input {} limits depth={} seq={}: {} allocations (largest {} bytes) on the successful slice path", hex(&input), lim.allowed_depth, lim.max_seq_size, st.allocations, st.largest));
			}
		}
		Err(true) => ctx.violation("C04/work-not-bounded/slice", format!("schema {json} input {} ({} bytes) limits depth={} seq={}: more than {event_budget} visitor events", hex(&input), len, lim.allowed_depth, lim.max_seq_size)),
		Err(false) => {
			// error path: the only allocations allowed are for the error itself
			if st.peak_live_bytes > 4096 {
				ctx.violation("C04/slice-error-path-allocates-much", format!("schema {json} input {}: peak {} bytes", hex(&input), st.peak_live_bytes));
			}
		}
	}
	// --- slice, ignoring target with the same event budget: the work done for ignored data is bounded
	// by the input length and the limits too (blocks carrying their byte size may be jumped over,
	// blocks without one count towards max_seq_size like for any other target)
	let ds_ign = DigestState::new(event_budget);
	let r_ign = {
		let mut stt = DeserializerState::with_config(SliceRead::new(&input), cfg.clone());
		IgnoringDigest { state: &ds_ign }.deserialize(stt.deserializer()).map_err(|e| e.to_string().contains("event budget exceeded"))
	};
	if let Err(true) = r_ign {
		ctx.violation("C04/work-not-bounded/ignoring-target", format!("schema {json} input {} ({} bytes) limits depth={} seq={}: more than {event_budget} visitor events while ignoring the value", hex(&input), len, lim.allowed_depth, lim.max_seq_size));
	}
	// --- slice, IgnoredAny and generic tree (totality)
	if !matches!(r_ign, Err(true)) {
		let mut stt = DeserializerState::with_config(SliceRead::new(&input), cfg.clone());
		let _ = <serde::de::IgnoredAny as serde::Deserialize>::deserialize(stt.deserializer());
		if lim.max_seq_size <= 1000 && input.len() <= 600 {
			let mut stt = DeserializerState::with_config(SliceRead::new(&input), cfg.clone());
			let _ = AnySeed.deserialize(stt.deserializer());
			// typed hints (Option on every union, enum by index, integer targets for decimals, tuple/seq/map
			// for durations ...): the choice is a function of the input, no tape bytes are consumed
			let hsh = crate::tape::fnv64(&input);
			let ccfg = CapCfg { hint_mode: (hsh & 1) as u8, enum_index: hsh & 2 != 0, decimal_hint: ((hsh >> 2) % 5) as u8, duration_mode: ((hsh >> 5) % 4) as u8, option_mode: hsh & 0x300 != 0 };
			let cctx = CapCtx::new(&env, ccfg, Some(&input));
			let mut stt = DeserializerState::with_config(SliceRead::new(&input), cfg.clone());
			let _ = cctx.seed(&ms).deserialize(stt.deserializer());
		}
	}
	// --- reader, digest target
	let ds2 = DigestState::new(event_budget);
	let mut rd = ChunkedReader::uniform(&input, chunk);
	rd.call_budget = 16 * (len + 1) + 4 * event_budget.min(1 << 40);
	let ((r_reader, calls, budget_hit), st2) = measure(|| {
		let mut rr = ReaderRead::new(&mut rd);
		rr.max_alloc_size = lim.max_alloc_size;
		let mut stt = DeserializerState::with_config(rr, cfg.clone());
		let r = Digest { state: &ds2 }.deserialize(stt.deserializer()).map_err(|e| e.to_string().contains("event budget exceeded"));
		drop(stt);
		(r, 0u64, false)
	});
	let _ = (calls, budget_hit);
	if rd.budget_exceeded {
		ctx.violation("C04/work-not-bounded/reader-calls", format!("schema {json} input {} chunk {chunk}: more than {} read calls", hex(&input), rd.call_budget));
	}
	if let Err(true) = r_reader {
		ctx.violation("C04/work-not-bounded/reader", format!("schema {json} input {}: more than {event_budget} visitor events", hex(&input)));
	}
	if st2.peak_live_bytes > lim.max_alloc_size as i64 + 8192 {
		ctx.violation("C04/reader-memory-exceeds-max-alloc-size", format!("schema {json} input {} chunk {chunk} max_alloc_size {}: peak live heap {} bytes (largest single allocation {})", hex(&input), lim.max_alloc_size, st2.peak_live_bytes, st2.largest));
	}
	// --- limits on inputs whose structure is known
	if let Some((v, _)) = &known {
		let d = value_depth(&env, &ms, v);
		let l = max_coll(v);
		let f = max_field(v);
		ctx.label(format!("depth:{}", d.min(9)));
		if d > lim.allowed_depth {
			tripped.push("depth");
			if r_slice.is_ok() {
				ctx.violation("C04/depth-limit-not-enforced/slice", format!("schema {json} value nests {d} deep, allowed_depth {}: decoded", lim.allowed_depth));
			}
			if r_reader.is_ok() {
				ctx.violation("C04/depth-limit-not-enforced/reader", format!("schema {json} value nests {d} deep, allowed_depth {}: decoded", lim.allowed_depth));
			}
		}
		// the limits hold for every kind of target: typed hints (seq, tuple, tuple struct, map, struct,
		// option, enum, newtype ...) go through their own arms of the deserializer
		if d > lim.allowed_depth || l > lim.max_seq_size {
			let mut ccfg = CapCfg::from_tape(&mut t);
			// (deserialize_option visits a null without descending, so it does not count that union level:
			// "nesting" is compared on the paths that descend into every node)
			ccfg.option_mode = false;
			let cctx = CapCtx::new(&env, ccfg.clone(), Some(&input));
			let mut stt = DeserializerState::with_config(SliceRead::new(&input), cfg.clone());
			let r = cctx.seed(&ms).deserialize(stt.deserializer());
			ctx.label("target:typed-hints-under-limits");
			if r.is_ok() {
				let which = if d > lim.allowed_depth { "depth-limit" } else { "max-seq-size" };
				ctx.violation(format!("C04/{which}-not-enforced/typed-target"), format!("schema {json} input {}: value nests {d} deep with a collection of {l} elements, allowed_depth {} max_seq_size {}: decoded by the typed capture target ({ccfg:?})", hex(&input), lim.allowed_depth, lim.max_seq_size));
			}
		}
		if l > lim.max_seq_size {
			tripped.push("seq");
			if r_slice.is_ok() {
				ctx.violation("C04/max-seq-size-not-enforced/slice", format!("schema {json} input {}: a collection of {l} elements decoded with max_seq_size {}", hex(&input), lim.max_seq_size));
			}
			if r_reader.is_ok() {
				ctx.violation("C04/max-seq-size-not-enforced/reader", format!("schema {json} input {}: a collection of {l} elements decoded with max_seq_size {}", hex(&input), lim.max_seq_size));
			}
		}
		if f > lim.max_alloc_size && f > chunk {
			tripped.push("alloc");
			if r_reader.is_ok() {
				ctx.violation("C04/max-alloc-size-not-enforced", format!("schema {json}: a field of {f} bytes decoded from a reader (chunk {chunk}) with max_alloc_size {}", lim.max_alloc_size));
			}
		}
		// (acceptance of valid encodings within the limits is C03's business, not asserted here:
		// e.g. decimals wider than 16 bytes are documented as unsupported)
		ctx.nontrivial = d >= 2 || !tripped.is_empty();
	} else {
		ctx.nontrivial = kind >= 3 || ds.events.get() >= 3;
	}
	for tr in &tripped {
		ctx.label(format!("limit-tripped:{tr}"));
	}
	ctx.hash_case(&format!("{json}|{}|{}/{}/{}", hex(&input), lim.allowed_depth, lim.max_seq_size, lim.max_alloc_size));
	if ctx.want_sample {
		ctx.sample = Some(serde_json::json!({"schema": trunc(&json, 400), "input_kind": what, "input_hex": trunc(&hex(&input), 200), "limits": {"allowed_depth": lim.allowed_depth, "max_seq_size": lim.max_seq_size, "max_alloc_size": lim.max_alloc_size}, "reader_chunk": chunk, "slice_result_ok": r_slice.is_ok(), "reader_result_ok": r_reader.is_ok(), "visitor_events": ds.events.get(), "slice_allocations": st.allocations, "reader_peak_live_bytes": st2.peak_live_bytes}));
	}
}
