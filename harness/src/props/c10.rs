//! C10 No undefined behaviour from the self-referential schema/reader in any history.
//!
//! An interpreter of API histories over slots. It is run natively (functional
//! oracle), under AddressSanitizer and under Miri (the detectors are the
//! deciding oracle for memory safety; see checks/C10.sh).

use super::common::*;
use super::container::crate_compression;
use crate::capture::*;
use crate::driver::Ctx;
use crate::io::ChunkedReader;
use crate::model::container::*;
use crate::model::*;
use crate::present::*;
use crate::tape::Tape;
use serde::de::{DeserializeSeed, Deserializer, MapAccess, SeqAccess, Visitor};
use serde_avro_fast::object_container_file_encoding::{Reader, WriterBuilder};
use serde_avro_fast::schema::{self as cs, SchemaMut};
use serde_avro_fast::ser::SerializerConfig;
use serde_avro_fast::Schema;
use std::sync::Arc;

pub const RULE: &str = "case = history of up to 24 operations over slots: parse a schema text / build a node graph (valid, or invalid in a tape-chosen way: out-of-bounds key in an array, map, union or record field, unnamed cycle, union with a logical type, empty vector) / edit through nodes_mut and freeze (Ok and every Err path) / move the schema into a Box or an Arc, to another thread and back / clone the Arc / serialize a generated value / deserialize owned / deserialize a borrowing value that is kept alive (and re-read) across later operations including the drop of its schema / open a container reader over a slice, an owned cursor or a chunked reader / read k values / clone reader.schema() / drop any slot in any order / run 2-4 threads doing serialisations and deserialisations on one shared schema and compare with the sequential results. The same interpreter runs natively, under AddressSanitizer and under Miri (Stacked Borrows, data-race detector); \
non-trivial = the history contains a freeze error path, or drops a schema/handle while a dependent (reader, borrowed value, cloned Arc) is used later, or a parallel section; distinct = hash of the operation outline";

/// A value that borrows everything it can from the input
#[derive(Debug)]
pub enum BV<'de> {
	Unit,
	Bool(bool),
	I(i128),
	F(u64),
	Str(&'de str),
	Bytes(&'de [u8]),
	OwnedStr(String),
	OwnedBytes(Vec<u8>),
	Seq(Vec<BV<'de>>),
	Map(Vec<(BV<'de>, BV<'de>)>),
}
impl<'de> BV<'de> {
	/// Read every byte reachable (so that a dangling borrow is an actual access)
	pub fn checksum(&self) -> u64 {
		let mut h = 0xcbf29ce484222325u64;
		let mut mix = |b: &[u8]| {
			for x in b {
				h = (h ^ *x as u64).wrapping_mul(0x100000001b3);
			}
		};
		match self {
			BV::Unit => mix(&[0]),
			BV::Bool(b) => mix(&[*b as u8]),
			BV::I(i) => mix(&i.to_le_bytes()),
			BV::F(f) => mix(&f.to_le_bytes()),
			BV::Str(s) => mix(s.as_bytes()),
			BV::Bytes(b) => mix(b),
			BV::OwnedStr(s) => mix(s.as_bytes()),
			BV::OwnedBytes(b) => mix(b),
			BV::Seq(v) => v.iter().for_each(|x| mix(&x.checksum().to_le_bytes())),
			BV::Map(v) => v.iter().for_each(|(k, x)| {
				mix(&k.checksum().to_le_bytes());
				mix(&x.checksum().to_le_bytes());
			}),
		}
		h
	}
	pub fn borrowed_count(&self) -> usize {
		match self {
			BV::Str(_) | BV::Bytes(_) => 1,
			BV::Seq(v) => v.iter().map(|x| x.borrowed_count()).sum(),
			BV::Map(v) => v.iter().map(|(k, x)| k.borrowed_count() + x.borrowed_count()).sum(),
			_ => 0,
		}
	}
}
pub struct BVSeed;
impl<'de> DeserializeSeed<'de> for BVSeed {
	type Value = BV<'de>;
	fn deserialize<D: Deserializer<'de>>(self, d: D) -> Result<BV<'de>, D::Error> {
		d.deserialize_any(BVVisitor)
	}
}
struct BVVisitor;
impl<'de> Visitor<'de> for BVVisitor {
	type Value = BV<'de>;
	fn expecting(&self, f: &mut std::fmt::Formatter) -> std::fmt::Result {
		f.write_str("anything")
	}
	fn visit_unit<E>(self) -> Result<BV<'de>, E> {
		Ok(BV::Unit)
	}
	fn visit_none<E>(self) -> Result<BV<'de>, E> {
		Ok(BV::Unit)
	}
	fn visit_some<D: Deserializer<'de>>(self, d: D) -> Result<BV<'de>, D::Error> {
		BVSeed.deserialize(d)
	}
	fn visit_bool<E>(self, v: bool) -> Result<BV<'de>, E> {
		Ok(BV::Bool(v))
	}
	fn visit_i32<E>(self, v: i32) -> Result<BV<'de>, E> {
		Ok(BV::I(v as i128))
	}
	fn visit_i64<E>(self, v: i64) -> Result<BV<'de>, E> {
		Ok(BV::I(v as i128))
	}
	fn visit_u32<E>(self, v: u32) -> Result<BV<'de>, E> {
		Ok(BV::I(v as i128))
	}
	fn visit_u64<E>(self, v: u64) -> Result<BV<'de>, E> {
		Ok(BV::I(v as i128))
	}
	fn visit_i128<E>(self, v: i128) -> Result<BV<'de>, E> {
		Ok(BV::I(v))
	}
	fn visit_f32<E>(self, v: f32) -> Result<BV<'de>, E> {
		Ok(BV::F(v.to_bits() as u64))
	}
	fn visit_f64<E>(self, v: f64) -> Result<BV<'de>, E> {
		Ok(BV::F(v.to_bits()))
	}
	fn visit_str<E>(self, v: &str) -> Result<BV<'de>, E> {
		Ok(BV::OwnedStr(v.to_string()))
	}
	fn visit_borrowed_str<E>(self, v: &'de str) -> Result<BV<'de>, E> {
		Ok(BV::Str(v))
	}
	fn visit_bytes<E>(self, v: &[u8]) -> Result<BV<'de>, E> {
		Ok(BV::OwnedBytes(v.to_vec()))
	}
	fn visit_borrowed_bytes<E>(self, v: &'de [u8]) -> Result<BV<'de>, E> {
		Ok(BV::Bytes(v))
	}
	fn visit_seq<A: SeqAccess<'de>>(self, mut seq: A) -> Result<BV<'de>, A::Error> {
		let mut out = Vec::new();
		while let Some(v) = seq.next_element_seed(BVSeed)? {
			out.push(v);
		}
		Ok(BV::Seq(out))
	}
	fn visit_map<A: MapAccess<'de>>(self, mut map: A) -> Result<BV<'de>, A::Error> {
		let mut out = Vec::new();
		while let Some(k) = map.next_key_seed(BVSeed)? {
			let v = map.next_value_seed(BVSeed)?;
			out.push((k, v));
		}
		Ok(BV::Map(out))
	}
}

enum SchemaHandle {
	Plain(Schema),
	Boxed(Box<Schema>),
	Shared(Arc<Schema>),
}
impl SchemaHandle {
	fn get(&self) -> &Schema {
		match self {
			SchemaHandle::Plain(s) => s,
			SchemaHandle::Boxed(s) => s,
			SchemaHandle::Shared(s) => s,
		}
	}
}

enum AnyReader {
	Slice(Reader<serde_avro_fast::de::read::SliceRead<'static>>),
	Cursor(Reader<serde_avro_fast::de::read::ReaderRead<std::io::Cursor<Vec<u8>>>>),
	Chunked(Reader<serde_avro_fast::de::read::ReaderRead<ChunkedReader<'static>>>),
}

struct SchemaSlot {
	handle: Option<SchemaHandle>,
	/// index into `models`
	model: usize,
}

struct Model {
	schema: MSchema,
}

struct ReaderSlot {
	reader: Option<AnyReader>,
	model: usize,
	expected: Vec<MValue>,
	next: usize,
}

struct BorrowSlot {
	value: BV<'static>,
	checksum: u64,
}

fn noffi() -> bool {
	cfg!(miri) || std::env::var("VERIF_C10_NOFFI").is_ok()
}

fn bad_nodes(t: &mut Tape, base: &MSchema) -> (Vec<cs::SchemaNode>, &'static str) {
	let mut nodes = to_nodes(base);
	let n = nodes.len();
	let oob = cs::SchemaKey::from_idx(n + t.below(3));
	let which = t.below(8);
	match which {
		0 => (vec![], "empty"),
		7 => {
			// a union that lists itself among its variants but is not reachable from the
			// root: the traversals from the root never see it, freeze succeeds
			let me = cs::SchemaKey::from_idx(n);
			let mut variants = vec![me];
			if n > 0 {
				variants.push(cs::SchemaKey::from_idx(t.below(n)));
			}
			if t.bool() {
				variants.reverse();
			}
			nodes.push(cs::SchemaNode::new(cs::RegularType::Union(cs::Union::new(variants))));
			nodes.push(cs::SchemaNode::new(cs::RegularType::String));
			(nodes, "unreachable-self-union")
		}
		1 => {
			nodes.push(cs::SchemaNode::new(cs::RegularType::Array(cs::Array::new(oob))));
			// make it reachable: root becomes a union of old root and the bad node? keep simple: append only
			// (freeze validates every node, reachable or not)
			(nodes, "oob-array-items")
		}
		2 => {
			nodes.push(cs::SchemaNode::new(cs::RegularType::Map(cs::Map::new(oob))));
			(nodes, "oob-map-values")
		}
		3 => {
			let k = t.below(3);
			let mut variants: Vec<cs::SchemaKey> = (0..k).map(|_| cs::SchemaKey::from_idx(t.below(n.max(1)))).collect();
			variants.insert(t.below(variants.len() + 1), oob);
			// nodes after the failing one stay placeholders when freeze bails out
			nodes.push(cs::SchemaNode::new(cs::RegularType::Union(cs::Union::new(variants))));
			nodes.push(cs::SchemaNode::new(cs::RegularType::String));
			(nodes, "oob-union-variant")
		}
		4 => {
			let k = t.below(3);
			let mut fields: Vec<cs::RecordField> = (0..k).map(|j| cs::RecordField::new(format!("f{j}"), cs::SchemaKey::from_idx(t.below(n.max(1))))).collect();
			fields.insert(t.below(fields.len() + 1), cs::RecordField::new("bad", oob));
			nodes.push(cs::SchemaNode::new(cs::RegularType::Record(cs::Record::new(cs::Name::from_fully_qualified_name("zz.Bad"), fields))));
			nodes.push(cs::SchemaNode::new(cs::RegularType::Union(cs::Union::new(vec![cs::SchemaKey::from_idx(0)]))));
			(nodes, "oob-record-field")
		}
		5 => {
			// cycle through unnamed nodes only, at the root
			let me = cs::SchemaKey::from_idx(0);
			nodes.insert(0, cs::SchemaNode::new(cs::RegularType::Array(cs::Array::new(me))));
			(nodes, "unnamed-cycle")
		}
		_ => {
			let nodes = vec![
				cs::SchemaNode::new(cs::RegularType::Array(cs::Array::new(cs::SchemaKey::from_idx(1)))),
				cs::SchemaNode::with_logical_type(cs::RegularType::Union(cs::Union::new(vec![cs::SchemaKey::from_idx(2)])), cs::LogicalType::Date),
				cs::SchemaNode::new(cs::RegularType::Null),
			];
			(nodes, "union-with-logical-type")
		}
	}
}

struct Interp<'a, 'd> {
	t: Tape<'d>,
	ctx: &'a mut Ctx,
	models: Vec<Model>,
	schemas: Vec<SchemaSlot>,
	readers: Vec<ReaderSlot>,
	borrows: Vec<BorrowSlot>,
	outline: String,
	freeze_err_path: bool,
	dependent_after_drop: bool,
	par: bool,
}

impl<'a, 'd> Interp<'a, 'd> {
	fn live_schema(&mut self) -> Option<usize> {
		let live: Vec<usize> = self.schemas.iter().enumerate().filter(|(_, s)| s.handle.is_some()).map(|(i, _)| i).collect();
		if live.is_empty() {
			None
		} else {
			Some(*self.t.pick(&live))
		}
	}

	fn gen_value(&mut self, model: usize) -> (MValue, P, Vec<u8>) {
		let m = &self.models[model];
		let env = Env::new(&m.schema);
		let v = ValueGen::new(&mut self.t, &env, ValCfg { max_depth: 8, max_coll: 4, max_str: 40, max_nodes: 40 }).gen(&m.schema);
		let p = Presenter::new(&mut self.t, &env, Mode::Promised).present(&m.schema, &v);
		let e = encode_single(&env, &m.schema, &v).unwrap_or_default();
		(v, p, e)
	}

	fn op_new_schema(&mut self) {
		let mut cfg = GenCfg::default();
		cfg.max_nodes = 14;
		cfg.max_depth = 4;
		let ms = SchemaGen::new(&mut self.t, cfg).gen();
		let mode = self.t.below(5);
		let res: Result<Schema, String> = match mode {
			0 | 1 => {
				self.outline.push_str("parse;");
				let text = Speller::with_tape(&mut self.t, true).spell(&ms);
				text.parse::<Schema>().map_err(|e| e.to_string())
			}
			2 => {
				self.outline.push_str("build;");
				SchemaMut::from_nodes(to_nodes(&ms)).freeze().map_err(|e| e.to_string())
			}
			3 => {
				self.outline.push_str("parse+edit;");
				let text = spell_plain(&ms);
				match text.parse::<SchemaMut>() {
					Ok(mut sm) => {
						let _ = sm.nodes_mut().len();
						sm.freeze().map_err(|e| e.to_string())
					}
					Err(e) => Err(e.to_string()),
				}
			}
			_ => {
				let (nodes, what) = bad_nodes(&mut self.t, &ms);
				self.outline.push_str(&format!("build-invalid({what});"));
				self.freeze_err_path = true;
				if std::env::var("VERIF_TRACE").is_ok() {
					eprintln!("TRACE build-invalid({what}): {nodes:?}");
				}
				let sm = SchemaMut::from_nodes(nodes);
				// the other traversals on the same invalid graph
				let _ = sm.canonical_form_rabin_fingerprint();
				let _ = serde_json::to_string(&sm);
				let r = sm.clone().freeze();
				if let Ok(s) = &r {
					// whatever froze must be usable
					let _ = format!("{s:?}");
					let mut sc = SerializerConfig::new(s);
					let _ = serde_avro_fast::to_datum_vec(&1i32, &mut sc);
					let _ = serde_avro_fast::from_datum_slice::<serde::de::IgnoredAny>(&[2, 2, 2, 2], s);
				}
				drop(sm);
				// invalid graphs do not become slots (no model to compare with)
				return;
			}
		};
		match res {
			Ok(s) => {
				self.models.push(Model { schema: ms });
				self.schemas.push(SchemaSlot { handle: Some(SchemaHandle::Plain(s)), model: self.models.len() - 1 });
			}
			Err(e) => self.ctx.violation("C10/valid-schema-rejected", e),
		}
	}

	fn op_move(&mut self) {
		let Some(i) = self.live_schema() else { return };
		let h = self.schemas[i].handle.take().unwrap();
		let how = self.t.below(4);
		self.outline.push_str(&format!("move{how};"));
		let nh = match (h, how) {
			(SchemaHandle::Plain(s), 0) => SchemaHandle::Boxed(Box::new(s)),
			(SchemaHandle::Plain(s), 1) => SchemaHandle::Shared(Arc::new(s)),
			(SchemaHandle::Boxed(b), 0) => SchemaHandle::Plain(*b),
			(SchemaHandle::Boxed(b), 1) => SchemaHandle::Shared(Arc::from(b)),
			(h, 2) => {
				// to another thread and back; the other thread uses it
				let jh = std::thread::spawn(move || {
					let fp = *h.get().rabin_fingerprint();
					let n = h.get().json().len();
					(h, fp, n)
				});
				let (h, fp, n) = jh.join().expect("thread");
				if fp != *h.get().rabin_fingerprint() || n != h.get().json().len() {
					self.ctx.violation("C10/schema-changed-across-threads", "fingerprint/json differ after a round trip through another thread");
				}
				h
			}
			(h, _) => {
				// move through a Vec reallocation
				let mut v = Vec::new();
				v.push(h);
				v.reserve(64);
				v.pop().unwrap()
			}
		};
		self.schemas[i].handle = Some(nh);
	}

	fn op_clone_arc(&mut self) {
		let arcs: Vec<usize> = self.schemas.iter().enumerate().filter(|(_, s)| matches!(s.handle, Some(SchemaHandle::Shared(_)))).map(|(i, _)| i).collect();
		if arcs.is_empty() {
			return;
		}
		let i = *self.t.pick(&arcs);
		self.outline.push_str("clone-arc;");
		if let Some(SchemaHandle::Shared(a)) = &self.schemas[i].handle {
			let c = a.clone();
			let model = self.schemas[i].model;
			self.schemas.push(SchemaSlot { handle: Some(SchemaHandle::Shared(c)), model });
		}
	}

	fn op_roundtrip(&mut self, borrowed: bool) {
		let Some(i) = self.live_schema() else { return };
		let model = self.schemas[i].model;
		let (v, p, reference) = self.gen_value(model);
		let s = self.schemas[i].handle.as_ref().unwrap().get();
		let mut sc = SerializerConfig::new(s);
		let bytes = match serde_avro_fast::to_datum_vec(&p, &mut sc) {
			Ok(b) => b,
			Err(e) => {
				self.ctx.violation("C10/serialize-failed", format!("{e}"));
				return;
			}
		};
		let ms = &self.models[model].schema;
		let env = Env::new(ms);
		match decode_strict(&env, ms, &bytes) {
			Ok((dv, n)) if n == bytes.len() && dv.same(&v) => {}
			other => self.ctx.violation("C10/serialized-bytes-wrong", format!("{other:?} vs reference {}", hex(&reference))),
		}
		if borrowed {
			self.outline.push_str("de-borrowed;");
			// the input buffer outlives everything (leaked); the value is kept alive in a slot
			let input: &'static [u8] = Box::leak(bytes.into_boxed_slice());
			let mut st = serde_avro_fast::de::DeserializerState::from_slice(input, s);
			match BVSeed.deserialize(st.deserializer()) {
				Ok(bv) => {
					let c = bv.checksum();
					self.borrows.push(BorrowSlot { value: bv, checksum: c });
				}
				Err(e) => self.ctx.violation("C10/deserialize-failed", e.to_string()),
			}
		} else {
			self.outline.push_str("de-owned;");
			let cfg = CapCfg::from_tape(&mut self.t);
			let (r, _) = super::c03::crate_decode_slice(&env, ms, s, &bytes, cfg);
			match r {
				Ok((dv, _)) if dv.same(&v) => {}
				other => self.ctx.violation("C10/deserialized-value-wrong", format!("{other:?} vs {v:?}")),
			}
		}
	}

	fn op_check_borrows(&mut self) {
		for b in &self.borrows {
			if b.value.checksum() != b.checksum {
				self.ctx.violation("C10/borrowed-value-changed", "a value borrowed from the input changed after later operations");
			}
		}
	}

	fn op_drop_schema(&mut self) {
		let Some(i) = self.live_schema() else { return };
		self.outline.push_str("drop-schema;");
		let had_dependents = !self.borrows.is_empty() || self.readers.iter().any(|r| r.reader.is_some());
		self.schemas[i].handle = None;
		if had_dependents {
			self.dependent_after_drop = true;
		}
	}

	fn op_open_reader(&mut self) {
		let Some(i) = self.live_schema() else { return };
		let model = self.schemas[i].model;
		let n = 1 + self.t.below(5);
		let mut vals = Vec::new();
		let mut ps = Vec::new();
		for _ in 0..n {
			let (v, p, _) = self.gen_value(model);
			vals.push(v);
			ps.push(p);
		}
		let codecs: &[Codec] = if noffi() { &[Codec::Null, Codec::Deflate, Codec::Snappy] } else { ALL_CODECS };
		let codec = *self.t.pick(codecs);
		let approx = *self.t.pick(&[0u32, 10, 1000]);
		let s = self.schemas[i].handle.as_ref().unwrap().get();
		let mut sc = SerializerConfig::new(s);
		let file = {
			let w = WriterBuilder::new(&mut sc).compression(crate_compression(codec, Some(1))).approx_block_size(approx).build(Vec::new());
			let mut w = match w {
				Ok(w) => w,
				Err(e) => {
					self.ctx.violation("C10/writer-build-failed", e.to_string());
					return;
				}
			};
			for p in &ps {
				if let Err(e) = w.serialize(p) {
					self.ctx.violation("C10/container-serialize-failed", e.to_string());
					super::container::discard(w);
					return;
				}
			}
			match w.into_inner() {
				Ok(f) => f,
				Err(e) => {
					self.ctx.violation("C10/container-finish-failed", e.to_string());
					return;
				}
			}
		};
		let kind = self.t.below(3);
		self.outline.push_str(&format!("open-reader({},{kind});", codec.name()));
		let rd = match kind {
			0 => {
				let input: &'static [u8] = Box::leak(file.into_boxed_slice());
				Reader::from_slice(input).map(AnyReader::Slice).map_err(|e| e.to_string())
			}
			1 => Reader::from_reader(std::io::Cursor::new(file)).map(AnyReader::Cursor).map_err(|e| e.to_string()),
			_ => {
				let input: &'static [u8] = Box::leak(file.into_boxed_slice());
				let k = 1 + self.t.below(16);
				Reader::from_reader(ChunkedReader::uniform(input, k)).map(AnyReader::Chunked).map_err(|e| e.to_string())
			}
		};
		match rd {
			Ok(r) => self.readers.push(ReaderSlot { reader: Some(r), model, expected: vals, next: 0 }),
			Err(e) => self.ctx.violation("C10/reader-init-failed", e),
		}
	}

	fn op_read(&mut self) {
		let live: Vec<usize> = self.readers.iter().enumerate().filter(|(_, r)| r.reader.is_some()).map(|(i, _)| i).collect();
		if live.is_empty() {
			return;
		}
		let i = *self.t.pick(&live);
		let k = 1 + self.t.below(3);
		self.outline.push_str(&format!("read{k};"));
		let borrowed_mode = self.t.bool();
		for _ in 0..k {
			let slot = &mut self.readers[i];
			let ms = &self.models[slot.model].schema;
			let env = Env::new(ms);
			let cctx = CapCtx::new(&env, CapCfg::default(), None);
			let r: Result<Option<MValue>, String> = match slot.reader.as_mut().unwrap() {
				AnyReader::Slice(r) => {
					if borrowed_mode {
						// borrowing target straight from the file slice (or not, when compressed)
						match r.deserialize_seed_next(BVSeed) {
							Ok(Some(bv)) => {
								let c = bv.checksum();
								self.borrows.push(BorrowSlot { value: bv, checksum: c });
								slot.next += 1;
								continue;
							}
							Ok(None) => Ok(None),
							Err(e) => Err(e.to_string()),
						}
					} else {
						r.deserialize_seed_next(cctx.seed(ms)).map_err(|e| e.to_string())
					}
				}
				AnyReader::Cursor(r) => r.deserialize_seed_next(cctx.seed(ms)).map_err(|e| e.to_string()),
				AnyReader::Chunked(r) => r.deserialize_seed_next(cctx.seed(ms)).map_err(|e| e.to_string()),
			};
			match r {
				Ok(Some(v)) => {
					if slot.next >= slot.expected.len() || !v.same(&slot.expected[slot.next]) {
						self.ctx.violation("C10/reader-value-wrong", format!("value #{}: {v:?}", slot.next));
					}
					slot.next += 1;
				}
				Ok(None) => {
					if slot.next != slot.expected.len() {
						self.ctx.violation("C10/reader-ended-early", format!("after {} of {}", slot.next, slot.expected.len()));
					}
				}
				Err(e) => self.ctx.violation("C10/reader-error", e),
			}
		}
	}

	fn op_reader_schema_clone(&mut self) {
		let live: Vec<usize> = self.readers.iter().enumerate().filter(|(_, r)| r.reader.is_some()).map(|(i, _)| i).collect();
		if live.is_empty() {
			return;
		}
		let i = *self.t.pick(&live);
		self.outline.push_str("reader-schema-clone;");
		let a: Arc<Schema> = match self.readers[i].reader.as_ref().unwrap() {
			AnyReader::Slice(r) => r.schema().clone(),
			AnyReader::Cursor(r) => r.schema().clone(),
			AnyReader::Chunked(r) => r.schema().clone(),
		};
		let model = self.readers[i].model;
		self.schemas.push(SchemaSlot { handle: Some(SchemaHandle::Shared(a)), model });
	}

	fn op_drop_reader(&mut self) {
		let live: Vec<usize> = self.readers.iter().enumerate().filter(|(_, r)| r.reader.is_some()).map(|(i, _)| i).collect();
		if live.is_empty() {
			return;
		}
		let i = *self.t.pick(&live);
		self.outline.push_str("drop-reader;");
		self.readers[i].reader = None;
		if self.schemas.iter().any(|s| s.handle.is_some()) || !self.borrows.is_empty() {
			self.dependent_after_drop = true;
		}
	}

	fn op_par(&mut self) {
		let Some(i) = self.live_schema() else { return };
		let model = self.schemas[i].model;
		let nthreads = 2 + self.t.below(3);
		self.outline.push_str(&format!("par{nthreads};"));
		self.par = true;
		let mut jobs: Vec<(P, Vec<u8>)> = Vec::new();
		for _ in 0..nthreads * 2 {
			let (_, p, e) = self.gen_value(model);
			jobs.push((p, e));
		}
		let s: &Schema = self.schemas[i].handle.as_ref().unwrap().get();
		// sequential reference
		let seq: Vec<(Result<Vec<u8>, String>, Result<String, String>)> = jobs
			.iter()
			.map(|(p, e)| {
				let mut sc = SerializerConfig::new(s);
				let a = serde_avro_fast::to_datum_vec(p, &mut sc).map_err(|e| e.to_string());
				let mut st = serde_avro_fast::de::DeserializerState::from_slice(e, s);
				let b = AnySeed.deserialize(st.deserializer()).map(|v| format!("{v:?}")).map_err(|e| e.to_string());
				(a, b)
			})
			.collect();
		// rendering the schema (Debug, also embedded in serializer error messages) is a use like any other
		let seq_dbg = format!("{s:?}");
		let dbg_rounds = 1 + self.t.below(12);
		let results: Vec<Vec<(Result<Vec<u8>, String>, Result<String, String>)>> = std::thread::scope(|scope| {
			let handles: Vec<_> = (0..nthreads)
				.map(|_| {
					let jobs = &jobs;
					let seq_dbg = &seq_dbg;
					scope.spawn(move || {
						let mut dbg_ok = true;
						for _ in 0..dbg_rounds {
							dbg_ok &= format!("{s:?}") == *seq_dbg;
						}
						let mut out = jobs.iter()
							.map(|(p, e)| {
								let mut sc = SerializerConfig::new(s);
								let a = serde_avro_fast::to_datum_vec(p, &mut sc).map_err(|e| e.to_string());
								let mut st = serde_avro_fast::de::DeserializerState::from_slice(e, s);
								let b = AnySeed.deserialize(st.deserializer()).map(|v| format!("{v:?}")).map_err(|e| e.to_string());
								(a, b)
							})
							.collect::<Vec<_>>();
						if !dbg_ok {
							out.push((Err("Debug rendering of the shared schema differs from the sequential rendering".to_string()), Err(String::new())));
						}
						out
					})
				})
				.collect();
			handles.into_iter().map(|h| h.join().expect("thread")).collect()
		});
		for r in results {
			if r != seq {
				self.ctx.violation("C10/concurrent-results-differ-from-sequential", "a thread obtained different bytes/values than the sequential run on the same shared schema");
			}
		}
	}
}

pub fn run(tape: &[u8], ctx: &mut Ctx) {
	let want_sample = ctx.want_sample;
	let mut it = Interp { t: Tape::new(tape), ctx, models: Vec::new(), schemas: Vec::new(), readers: Vec::new(), borrows: Vec::new(), outline: String::new(), freeze_err_path: false, dependent_after_drop: false, par: false };
	let nops = 2 + it.t.below(if cfg!(miri) { 10 } else { 23 });
	it.op_new_schema();
	for _ in 0..nops {
		match it.t.below(16) {
			0 | 1 => it.op_new_schema(),
			2 => it.op_move(),
			3 => it.op_clone_arc(),
			4 | 5 => it.op_roundtrip(false),
			6 | 7 => it.op_roundtrip(true),
			8 => it.op_drop_schema(),
			9 | 10 => it.op_open_reader(),
			11 | 12 => it.op_read(),
			13 => it.op_reader_schema_clone(),
			14 => it.op_drop_reader(),
			_ => it.op_par(),
		}
		it.op_check_borrows();
	}
	// final: drop everything in a tape-chosen order, re-reading borrowed values in between
	let order = it.t.below(3);
	match order {
		0 => {
			it.schemas.clear();
			it.op_check_borrows();
			it.readers.clear();
		}
		1 => {
			it.readers.clear();
			it.op_check_borrows();
			it.schemas.clear();
		}
		_ => {
			while let Some(s) = it.schemas.pop() {
				drop(s);
				if let Some(r) = it.readers.pop() {
					drop(r);
				}
			}
			it.readers.clear();
		}
	}
	it.op_check_borrows();
	let nt = it.freeze_err_path || it.dependent_after_drop || it.par;
	let outline = it.outline.clone();
	let (a, b, c) = (it.freeze_err_path, it.dependent_after_drop, it.par);
	let nb: usize = it.borrows.iter().map(|b| b.value.borrowed_count()).sum();
	drop(it);
	if a {
		ctx.label("history:freeze-error-path");
	}
	if b {
		ctx.label("history:dependent-used-after-owner-dropped");
	}
	if c {
		ctx.label("history:parallel-section");
	}
	if nb > 0 {
		ctx.label("history:borrowed-values-held");
	}
	ctx.nontrivial = nt;
	ctx.hash_case(&outline);
	if want_sample {
		ctx.sample = Some(serde_json::json!({"history": trunc(&outline, 700), "borrowed_leaves_held": nb}));
	}
}
