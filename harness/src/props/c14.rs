//! C14 Reusing a serializer configuration never changes output; failures leave it clean.

use super::common::*;
use crate::driver::Ctx;
use crate::model::*;
use crate::present::*;
use crate::tape::Tape;
use serde_avro_fast::ser::SerializerConfig;

pub const RULE: &str = "case = history on one SerializerConfig: up to 12 serialisations over one generated schema, each a generated value under an accepted (often field-shuffled, buffered) presentation that either succeeds, fails at a tape-chosen node (non-conforming mutation at any depth, incl. inside sequences buffered as bytes and nested out-of-order records) or fails because the sink returns an I/O error after n bytes; after EVERY step a probe value is serialised on the used configuration and on a fresh one; \
non-trivial = a failing step precedes a probe whose presentation contains an out-of-order record or a buffered bytes sequence; distinct = hash of (schema JSON, history outline)";

struct FailingWriter {
	buf: Vec<u8>,
	fail_after: usize,
}
impl std::io::Write for FailingWriter {
	fn write(&mut self, b: &[u8]) -> std::io::Result<usize> {
		if self.buf.len() + b.len() > self.fail_after {
			let room = self.fail_after.saturating_sub(self.buf.len());
			if room == 0 {
				return Err(std::io::Error::new(std::io::ErrorKind::Other, "injected sink error"));
			}
			self.buf.extend_from_slice(&b[..room]);
			return Ok(room);
		}
		self.buf.extend_from_slice(b);
		Ok(b.len())
	}
	fn flush(&mut self) -> std::io::Result<()> {
		Ok(())
	}
}

pub fn run(tape: &[u8], ctx: &mut Ctx) {
	let mut t = Tape::new(tape);
	let Some(case) = gen_schema_case(&mut t, GenCfg::default(), ctx, "C14") else { return };
	let env = Env::new(&case.schema);
	schema_labels(&case.schema, ctx);
	let vcfg = ValCfg { max_coll: 6, max_nodes: 120, max_str: 60, ..ValCfg::default() };
	let mut used = SerializerConfig::new(&case.crate_schema);
	used.allow_slow_sequence_to_bytes();
	let steps = 1 + t.below(12);
	let mut outline = String::new();
	let mut failures_so_far = 0;
	let mut nontrivial = false;
	let mut evals = 0u64;
	for step in 0..steps {
		let value = ValueGen::new(&mut t, &env, vcfg.clone()).gen(&case.schema);
		let mode = t.below(4); // 0,1: succeed; 2: mutation; 3: sink error
		let pick = t.u16() as usize;
		let n_nodes = {
			let mut t2 = t.clone();
			let mut pr = Presenter::new(&mut t2, &env, Mode::Accepted);
			let _ = pr.present(&case.schema, &value);
			pr.node_counter.max(1)
		};
		let (p, mutation) = {
			let mut pr = Presenter::new(&mut t, &env, Mode::Accepted);
			if mode == 2 {
				pr.mutate_at = Some((pick * n_nodes) >> 16);
			}
			let p = pr.present(&case.schema, &value);
			(p, pr.mutation)
		};
		let res: Result<usize, String> = if mode == 3 {
			let fail_after = t.below(40);
			serde_avro_fast::to_datum(&p, FailingWriter { buf: Vec::new(), fail_after }, &mut used).map(|w| w.buf.len()).map_err(|e| e.to_string())
		} else {
			serde_avro_fast::to_datum(&p, Vec::new(), &mut used).map(|w| w.len()).map_err(|e| e.to_string())
		};
		evals += 1;
		match (&res, mode, &mutation) {
			(Ok(_), _, _) => outline.push_str("ok;"),
			(Err(_), 3, _) => {
				outline.push_str("sink-err;");
				failures_so_far += 1;
				ctx.label("step:sink-error");
			}
			(Err(_), _, Some(m)) => {
				outline.push_str(&format!("fail({m});"));
				failures_so_far += 1;
				ctx.label(format!("step:fail:{}", m.split('/').next().unwrap_or("")));
			}
			(Err(_), _, None) => {
				outline.push_str("err;");
				failures_so_far += 1;
				ctx.label("step:err-conforming");
			}
		}
		// probe after every step
		let probe_value = ValueGen::new(&mut t, &env, vcfg.clone()).gen(&case.schema);
		let (probe, reordered, cells) = {
			let mut pr = Presenter::new(&mut t, &env, Mode::Accepted);
			let p = pr.present(&case.schema, &probe_value);
			(p, pr.reordered_records, pr.cells)
		};
		let buffered_seq = cells.iter().any(|c| c == "bytes/seq(None)");
		let mut fresh = SerializerConfig::new(&case.crate_schema);
		fresh.allow_slow_sequence_to_bytes();
		let a = serde_avro_fast::to_datum(&probe, Vec::new(), &mut used).map_err(|e| e.to_string());
		let b = serde_avro_fast::to_datum(&probe, Vec::new(), &mut fresh).map_err(|e| e.to_string());
		evals += 2;
		if failures_so_far > 0 && (reordered > 0 || buffered_seq) {
			nontrivial = true;
		}
		if a != b {
			ctx.violation("C14/used-config-differs-from-fresh", format!("schema {} after history [{outline}] (step {step}) probe {:?}: used config -> {:?}, fresh config -> {:?}", case.json, probe, a.as_ref().map(|x| hex(x)), b.as_ref().map(|x| hex(x))));
			break;
		}
		if let Ok(bytes) = &a {
			match decode_strict(&env, &case.schema, bytes) {
				Ok((v, n)) if n == bytes.len() && v.same(&probe_value) => {}
				other => {
					ctx.violation("C14/probe-bytes-wrong", format!("schema {} probe {:?} value {:?}: bytes {} decode to {:?}", case.json, probe, probe_value, hex(bytes), other));
					break;
				}
			}
		}
	}
	ctx.sub_evaluations = evals;
	ctx.nontrivial = nontrivial;
	ctx.hash_case(&format!("{}|{outline}", case.json));
	if ctx.want_sample {
		ctx.sample = Some(serde_json::json!({"schema": trunc(&case.json, 500), "history": outline, "steps": steps}));
	}
}
