//! C15 Container writer: valid file at every quiescent point; failed values leave none.

use super::container::*;
use crate::driver::Ctx;
use crate::model::container::*;
use crate::model::*;
use crate::tape::Tape;
use serde_avro_fast::ser::SerializerConfig;
use std::cell::RefCell;
use std::rc::Rc;

pub const RULE: &str = "case = history over {serialize ok, serialize failing at a tape-chosen depth (non-conforming value), serialize_all with a failing element anywhere, push_serialized, finish_block} then one of {into_inner, drop, finish_block + drop}, x approx_block_size in {0,1,2,10,100,1000,4096,65536} x codec; the sink (a shared Vec) is parsed by the reference container parser AFTER EVERY CALL (every call boundary is a crash point): it must be a complete valid file whose objects are a prefix of the accepted values, and exactly all of them after finish_block / into_inner / drop; \
non-trivial = a failing serialize lies between two accepted values of the same block, or the writer is dropped with a non-empty open block; distinct = hash of (schema JSON, history outline)";

#[derive(Clone)]
struct SharedSink(Rc<RefCell<Vec<u8>>>, Rc<std::cell::Cell<u8>>);
/// states of the refusal switch: 0 off, 1 armed (refuse the next write call, accepting nothing), 2 fired
impl std::io::Write for SharedSink {
	fn write(&mut self, b: &[u8]) -> std::io::Result<usize> {
		if self.1.get() == 1 {
			self.1.set(2);
			return Err(std::io::Error::new(std::io::ErrorKind::Other, "harness: sink refuses this write (nothing accepted)"));
		}
		self.0.borrow_mut().extend_from_slice(b);
		Ok(b.len())
	}
	fn flush(&mut self) -> std::io::Result<()> {
		Ok(())
	}
}

fn check_sink(ctx: &mut Ctx, h: &Hist, env: &Env, sink: &[u8], accepted: &[usize], must_be_all: bool, when: &str) -> Option<usize> {
	let outline = hist_outline(h);
	let rf = match ref_parse(sink) {
		Ok(f) => f,
		Err(e) => {
			ctx.violation(format!("C15/sink-not-a-valid-file/{}", h.codec.name()), format!("schema {} {outline}: after {when} the sink ({} bytes) is not a complete valid container file: {e}", h.case.json, sink.len()));
			return None;
		}
	};
	let vals = match ref_values(env, &h.case.schema, &rf) {
		Ok(v) => v,
		Err(e) => {
			ctx.violation(format!("C15/block-contents-invalid/{}", h.codec.name()), format!("schema {} {outline}: after {when}: {e}", h.case.json));
			return None;
		}
	};
	if vals.len() > accepted.len() || vals.iter().zip(accepted).any(|(a, i)| !a.same(&h.values[*i])) {
		ctx.violation("C15/file-not-a-prefix-of-accepted-values", format!("schema {} {outline}: after {when}: file holds {} objects {:?}, accepted so far {:?}", h.case.json, vals.len(), vals, accepted));
		return None;
	}
	if must_be_all && vals.len() != accepted.len() {
		ctx.violation("C15/values-missing-after-flush", format!("schema {} {outline}: after {when}: file holds {} objects but {} were accepted", h.case.json, vals.len(), accepted.len()));
		return None;
	}
	Some(vals.len())
}

pub fn run(tape: &[u8], ctx: &mut Ctx) {
	let mut t = Tape::new(tape);
	let hc = HistCfg { allow_bad: true, allow_big: true, max_ops: 10, codecs: ALL_CODECS, user_meta: false };
	let Some(h) = gen_hist(&mut t, ctx, "C15", &hc) else { return };
	let env = Env::new(&h.case.schema);
	ctx.label(format!("codec:{}", h.codec.name()));
	ctx.label(format!("approx:{}", h.approx));
	let outline = hist_outline(&h);
	let ending = t.below(3);
	let sink = Rc::new(RefCell::new(Vec::new()));
	let mut sc = SerializerConfig::new(&h.case.crate_schema);
	sc.allow_slow_sequence_to_bytes();
	let mut accepted: Vec<usize> = Vec::new();
	let mut evals = 0u64;
	let refusal = Rc::new(std::cell::Cell::new(0u8));
	let mut refusals = 0;
	let mut w = match build_writer(&mut sc, &h, SharedSink(sink.clone(), refusal.clone())) {
		Ok(w) => w,
		Err(e) => {
			ctx.violation("C15/writer-build-failed", format!("{outline}: {e}"));
			return;
		}
	};
	evals += 1;
	if check_sink(ctx, &h, &env, &sink.borrow(), &accepted, true, "build").is_none() {
		discard(w);
		return;
	}
	let mut bad_between_good_in_block = false;
	let mut last_flushed = 0usize;
	let mut pending_bad_after_good = false;
	for (i, op) in h.ops.iter().enumerate() {
		let before = accepted.len();
		let has_bad = match op {
			Op::Serialize(Item::Bad(_)) => true,
			Op::SerializeAll(v) => v.iter().any(|x| matches!(x, Item::Bad(_))),
			_ => false,
		};
		// a transient sink failure: the first write call of an explicit flush is refused atomically
		// (nothing accepted), afterwards the sink works again and the application carries on. The
		// flush must report the error; every later call that returns Ok must again leave a valid file.
		if matches!(op, Op::FinishBlock) && t.chance(64) {
			refusal.set(1);
			let r = apply_op(&mut w, &h, op, &mut accepted);
			let fired = refusal.get() == 2;
			refusal.set(0);
			if fired {
				refusals += 1;
				if r.is_ok() {
					ctx.violation("C15/sink-error-swallowed", format!("schema {} {outline}: op #{i} finish_block returned Ok although the sink refused its first write", h.case.json));
					discard(w);
					return;
				}
				evals += 1;
				if check_sink(ctx, &h, &env, &sink.borrow(), &accepted, false, &format!("op #{i} finish_block (sink refused the write)")).is_none() {
					discard(w);
					return;
				}
				continue;
			}
			if let Err(e) = r {
				ctx.violation("C15/write-failed", format!("schema {} {outline}: op #{i} {op:?}: {e}", h.case.json));
				discard(w);
				return;
			}
		} else {
		match apply_op(&mut w, &h, op, &mut accepted) {
			Ok(()) => {}
			Err(e) => {
				let sig = if e.starts_with("BAD-ACCEPTED") { "C15/non-conforming-value-accepted" } else { "C15/write-failed" };
				ctx.violation(sig, format!("schema {} {outline}: op #{i} {op:?}: {e}", h.case.json));
				discard(w);
				return;
			}
		}
		}
		evals += 1;
		let must_all = matches!(op, Op::FinishBlock);
		let Some(flushed) = check_sink(ctx, &h, &env, &sink.borrow(), &accepted, must_all, &format!("op #{i} {op:?}")) else {
			discard(w);
			return;
		};
		// bookkeeping for the non-trivial rule: a bad item while the open block already holds a good value...
		if has_bad && before > last_flushed {
			pending_bad_after_good = true;
		}
		// ...and another good value joins the same block afterwards
		if pending_bad_after_good && accepted.len() > before && !has_bad && flushed <= before {
			bad_between_good_in_block = true;
		}
		if flushed > last_flushed {
			last_flushed = flushed;
			if flushed >= accepted.len() {
				pending_bad_after_good = false;
			}
		}
	}
	let open_block_nonempty = accepted.len() > last_flushed;
	let end_name = match ending {
		0 => {
			match w.into_inner() {
				Ok(_) => {}
				Err(e) => {
					ctx.violation("C15/write-failed", format!("schema {} {outline}: into_inner: {e}", h.case.json));
					return;
				}
			}
			"into_inner"
		}
		1 => {
			drop(w);
			"drop"
		}
		_ => {
			if let Err(e) = w.finish_block() {
				ctx.violation("C15/write-failed", format!("schema {} {outline}: finish_block: {e}", h.case.json));
				discard(w);
				return;
			}
			drop(w);
			"finish_block+drop"
		}
	};
	evals += 1;
	ctx.label(format!("ending:{end_name}"));
	check_sink(ctx, &h, &env, &sink.borrow(), &accepted, true, end_name);
	ctx.sub_evaluations = evals;
	ctx.nontrivial = bad_between_good_in_block || (ending == 1 && open_block_nonempty) || refusals > 0;
	if refusals > 0 {
		ctx.label("history:flush-refused-then-continued");
	}
	if bad_between_good_in_block {
		ctx.label("history:failing-value-between-accepted-in-one-block");
	}
	if ending == 1 && open_block_nonempty {
		ctx.label("history:drop-with-open-block");
	}
	ctx.hash_case(&format!("{}|{outline}|{end_name}", h.case.json));
	if ctx.want_sample {
		let mut s = hist_sample(&h);
		s["ending"] = end_name.into();
		s["accepted_values"] = accepted.len().into();
		s["final_file_len"] = sink.borrow().len().into();
		ctx.sample = Some(s);
	}
}
