//! Helpers shared by property modules.

use crate::driver::Ctx;
use crate::model::*;
use crate::tape::Tape;
use serde_avro_fast::Schema;

pub struct Case {
	pub schema: MSchema,
	pub json: String,
	pub crate_schema: Schema,
}

/// Generate a model schema and obtain the crate's Schema for it, through JSON
/// text (plain spelling) or through the graph builder.
pub fn gen_schema_case(t: &mut Tape, cfg: GenCfg, ctx: &mut Ctx, prop: &str) -> Option<Case> {
	let schema = SchemaGen::new(t, cfg).gen();
	let json = spell_plain(&schema);
	// three routes to the same schema: parsed text (most cases), the builder API, or a parsed
	// *other* document whose nodes are replaced through nodes_mut() (nothing of the first
	// document - cached JSON, fingerprint - may survive the edit)
	let route = t.byte();
	let via_nodes = route >= 208;
	let crate_schema: Result<Schema, String> = if route >= 232 {
		serde_avro_fast::schema::SchemaMut::from_nodes(to_nodes(&schema)).freeze().map_err(|e| e.to_string())
	} else if route >= 208 {
		let mut sm: serde_avro_fast::schema::SchemaMut = r#"{"type":"record","name":"Before","fields":[{"name":"x","type":"long"}]}"#.parse().expect("fixed document");
		let _ = sm.canonical_form_rabin_fingerprint();
		*sm.nodes_mut() = to_nodes(&schema);
		sm.freeze().map_err(|e| e.to_string())
	} else {
		json.parse::<Schema>().map_err(|e| e.to_string())
	};
	match crate_schema {
		Ok(cs) => Some(Case { schema, json, crate_schema: cs }),
		Err(e) => {
			// a valid schema rejected: that is C07/C19 territory; other properties record
			// it under a dedicated signature so that it is visible but distinguishable
			ctx.violation(format!("{prop}/valid-schema-rejected"), format!("schema {json} rejected ({}): {e}", if via_nodes { "builder" } else { "parse" }));
			None
		}
	}
}

pub fn trunc(s: &str, n: usize) -> String {
	if s.len() <= n {
		s.to_string()
	} else {
		let mut end = n;
		while !s.is_char_boundary(end) {
			end -= 1;
		}
		format!("{}…(+{} bytes)", &s[..end], s.len() - end)
	}
}

pub fn hex(b: &[u8]) -> String {
	let mut s = String::with_capacity(b.len() * 2);
	for x in b.iter().take(400) {
		s.push_str(&format!("{x:02x}"));
	}
	if b.len() > 400 {
		s.push_str(&format!("…(+{} bytes)", b.len() - 400));
	}
	s
}

pub fn schema_labels(schema: &MSchema, ctx: &mut Ctx) -> SchemaFeatures {
	let f = features(schema);
	if f.unions_multi > 0 {
		ctx.label("schema:multi-branch-union");
	}
	if f.logical > 0 {
		ctx.label("schema:logical");
	}
	if f.refs > 0 {
		ctx.label("schema:named-ref");
	}
	if f.recursive {
		ctx.label("schema:recursive");
	}
	if f.depth >= 3 {
		ctx.label("schema:depth>=3");
	}
	for k in &f.kinds {
		ctx.label(format!("kind:{k}"));
	}
	f
}

/// Chunk partition from the tape: either uniform k or irregular
pub fn gen_partition(t: &mut Tape, len: usize) -> (Vec<usize>, usize) {
	match t.below(3) {
		0 => (vec![], 1 + t.below(8)),
		1 => (vec![], 1 + t.below(len.max(1).min(64))),
		_ => {
			let n = t.small(12);
			let sizes = (0..n).map(|_| 1 + t.below(9)).collect();
			(sizes, 1 + t.below(5))
		}
	}
}
