//! C05 Container-file round trip for every codec, level, block size, flush pattern.

use super::common::*;
use super::container::*;
use crate::capture::*;
use crate::driver::Ctx;
use crate::io::ChunkedReader;
use crate::model::container::*;
use crate::model::*;
use crate::tape::Tape;
use serde_avro_fast::ser::SerializerConfig;

pub const RULE: &str = "case = (generated schema or a bytes-payload schema, value sequence, codec in {null, deflate, bzip2, snappy, xz, zstandard}, level (default / explicit incl. values that must be clipped), approx_block_size in {0,1,2,10,100,1000,4096,65536,...}, op list over {serialize, serialize_all, push_serialized(concatenated datums, n), finish_block}); 'big' cases place the UNCOMPRESSED block length exactly on {8191,8192,8193,16384,32767,32768,32769,40000,65535,65536,65537,100000,140000} with compressible or incompressible (xorshift) content so that compressed lengths cross the encoder's 32 KiB buffer and its doublings; every file is read back by the reference parser and by the crate from a slice, BufReaders of capacity {1,7,4096,8192,8193} and a chunked reader, the reader's public entry points (deserialize_seed_next, deserialize_next, the deserialize() iterator and, for slices, deserialize_next_borrowed / deserialize_borrowed) taking turns call by call; \
non-trivial = the file has >=2 blocks, or is a 'big' boundary case, or mixes push_serialized and finish_block; distinct = hash of (schema JSON, history outline, value encodings)";

pub fn run(tape: &[u8], ctx: &mut Ctx) {
	let mut t = Tape::new(tape);
	let hc = HistCfg { allow_bad: false, allow_big: true, max_ops: 8, codecs: ALL_CODECS, user_meta: false };
	let Some(h) = gen_hist(&mut t, ctx, "C05", &hc) else { return };
	let env = Env::new(&h.case.schema);
	ctx.label(format!("codec:{}", h.codec.name()));
	ctx.label(format!("approx:{}", h.approx));
	if h.level.is_some() {
		ctx.label("level:explicit");
	}
	let outline = hist_outline(&h);
	let mut sc = SerializerConfig::new(&h.case.crate_schema);
	let mut accepted = Vec::new();
	// a third of the files are finished by dropping a writer that holds the sink by reference
	// (documented: the pending block is flushed on drop), the rest through into_inner()
	let by_drop = h.sync[0] % 3 == 0;
	let mut borrowed_sink: Vec<u8> = Vec::new();
	let bytes = if by_drop {
		ctx.label("ending:drop(sink by reference)");
		{
			let mut w = match build_writer(&mut sc, &h, &mut borrowed_sink) {
				Ok(w) => w,
				Err(e) => {
					ctx.violation("C05/writer-build-failed", format!("{outline}: {e}"));
					return;
				}
			};
			for (i, op) in h.ops.iter().enumerate() {
				if let Err(e) = apply_op(&mut w, &h, op, &mut accepted) {
					ctx.violation(format!("C05/write-failed/{}", h.codec.name()), format!("schema {} {outline}: op #{i} {op:?} failed: {e} (value lengths {:?})", h.case.json, h.encoded.iter().map(|e| e.len()).collect::<Vec<_>>()));
					discard(w);
					return;
				}
			}
			drop(w);
		}
		std::mem::take(&mut borrowed_sink)
	} else {
		let mut w = match build_writer(&mut sc, &h, Vec::new()) {
			Ok(w) => w,
			Err(e) => {
				ctx.violation("C05/writer-build-failed", format!("{outline}: {e}"));
				return;
			}
		};
		for (i, op) in h.ops.iter().enumerate() {
			if let Err(e) = apply_op(&mut w, &h, op, &mut accepted) {
				ctx.violation(format!("C05/write-failed/{}", h.codec.name()), format!("schema {} {outline}: op #{i} {op:?} failed: {e} (value lengths {:?})", h.case.json, h.encoded.iter().map(|e| e.len()).collect::<Vec<_>>()));
				// the writer's Drop would panic in debug mode on a failing flush: forget it
				discard(w);
				return;
			}
		}
		match w.into_inner() {
			Ok(b) => b,
			Err(e) => {
				ctx.violation(format!("C05/write-failed/{}", h.codec.name()), format!("schema {} {outline}: into_inner failed: {e}", h.case.json));
				return;
			}
		}
	};
	let want: Vec<&MValue> = accepted.iter().map(|i| &h.values[*i]).collect();
	// reference parse
	let rf = match ref_parse(&bytes) {
		Ok(f) => f,
		Err(e) => {
			ctx.violation(format!("C05/file-unreadable-by-reference/{}", h.codec.name()), format!("schema {} {outline}: file of {} bytes: {e}", h.case.json, bytes.len()));
			return;
		}
	};
	match ref_values(&env, &h.case.schema, &rf) {
		Ok(vals) => {
			if vals.len() != want.len() || vals.iter().zip(&want).any(|(a, b)| !a.same(b)) {
				ctx.violation(format!("C05/reference-reads-different-values/{}", h.codec.name()), format!("schema {} {outline}: wrote {} values, reference reads {}", h.case.json, want.len(), vals.len()));
			}
		}
		Err(e) => ctx.violation(format!("C05/file-contents-invalid-per-reference/{}", h.codec.name()), format!("schema {} {outline}: {e}", h.case.json)),
	}
	let nblocks = rf.blocks.len();
	let max_compressed = rf.blocks.iter().map(|b| b.size).max().unwrap_or(0);
	if max_compressed > 32 * 1024 {
		ctx.label("block:compressed>32KiB");
	}
	if max_compressed > 64 * 1024 {
		ctx.label("block:compressed>64KiB");
	}
	if nblocks >= 2 {
		ctx.label("file:multi-block");
	}
	let mixes = h.ops.iter().any(|o| matches!(o, Op::Push(_))) && h.ops.iter().any(|o| matches!(o, Op::FinishBlock));
	ctx.nontrivial = nblocks >= 2 || h.big || mixes;
	ctx.hash_case(&format!("{}|{outline}|{:?}", h.case.json, h.encoded.iter().map(|e| crate::tape::fnv64(e)).collect::<Vec<_>>()));
	if ctx.want_sample {
		let mut s = hist_sample(&h);
		s["file_len"] = serde_json::json!(bytes.len());
		s["blocks"] = serde_json::json!(rf.blocks.iter().map(|b| serde_json::json!({"count": b.count, "compressed_size": b.size, "uncompressed_size": b.data.len()})).collect::<Vec<_>>());
		ctx.sample = Some(s);
	}
	// crate readers
	let cfg = CapCfg::from_tape(&mut t);
	let max_calls = want.len() + 4;
	let mut evals = 1u64;
	let mut check = |ctx: &mut Ctx, how: &str, r: Result<(Vec<Next>, CapStats), String>| {
		evals += 1;
		match r {
			Ok((nexts, st)) => {
				if let Err(e) = expect_all(&nexts, &want) {
					ctx.violation(format!("C05/read-back-differs/{}/{}", h.codec.name(), if how == "slice" { "slice" } else { "reader" }), format!("schema {} {outline} ({how}): {e}", h.case.json));
				}
				if !st.borrow_outside_input.is_empty() {
					ctx.violation("C05/borrow-outside-input", format!("{how}: {:?}", st.borrow_outside_input));
				}
			}
			Err(e) => ctx.violation(format!("C05/reader-init-failed/{}", h.codec.name()), format!("schema {} {outline} ({how}): {e}", h.case.json)),
		}
	};
	check(ctx, "slice", read_slice(&env, &h.case.schema, &bytes, &cfg, max_calls));
	let caps: &[usize] = if bytes.len() > 20_000 { &[4096, 8193] } else { &[1, 7, 4096, 8192, 8193] };
	for cap in caps {
		let br = std::io::BufReader::with_capacity(*cap, std::io::Cursor::new(&bytes[..]));
		check(ctx, &format!("BufReader({cap})"), read_bufread(&env, &h.case.schema, br, &cfg, max_calls));
	}
	let (sizes, tail) = gen_partition(&mut t, bytes.len().min(64));
	let tail = if bytes.len() > 20_000 { tail + 500 } else { tail };
	check(ctx, &format!("chunked {sizes:?}/{tail}"), read_bufread(&env, &h.case.schema, ChunkedReader::new(&bytes, sizes.clone(), tail), &cfg, max_calls));
	ctx.sub_evaluations = evals;
}
