//! C18 Single-object encoding: marker + schema fingerprint + datum, verified on read.

use super::common::*;
use crate::capture::*;
use crate::driver::Ctx;
use crate::io::ChunkedReader;
use crate::model::*;
use crate::present::*;
use crate::tape::Tape;
use serde_avro_fast::ser::SerializerConfig;

pub const RULE: &str = "case = (generated schema, conforming value, promised presentation) serialised as a single object; checked against C3 01 || reference CRC-64-AVRO(PCF) little-endian || reference-decodable datum; read back through slice and chunked reader; then every single-bit corruption of the 10 header bytes, every truncation length 0..len, and reading under a second schema (a one-step semantic mutation or an independently generated one) whose reference fingerprint differs; \
non-trivial = the other-schema read is attempted with a datum that WOULD decode under the other schema (so only the fingerprint check stands between the message and a wrong decode), or the schema has named types/logical types that PCF must normalise; distinct = hash of (schema JSON, bytes)";

fn capture_single(env: &Env, ms: &MSchema, cs: &serde_avro_fast::Schema, bytes: &[u8], cfg: &CapCfg, reader_chunk: Option<usize>) -> Result<MValue, String> {
	match reader_chunk {
		None => {
			let cctx = CapCtx::new(env, cfg.clone(), Some(bytes));
			with_capture_tls(&cctx, ms, || serde_avro_fast::from_single_object_slice::<TlsCaptured>(bytes, cs)).map(|v| v.0).map_err(|e| e.to_string())
		}
		Some(k) => {
			let cctx = CapCtx::new(env, cfg.clone(), None);
			let rd = ChunkedReader::uniform(bytes, k);
			with_capture_tls(&cctx, ms, || serde_avro_fast::from_single_object_reader::<_, TlsCaptured>(rd, cs)).map(|v| v.0).map_err(|e| e.to_string())
		}
	}
}

/// One-step semantic mutations that change the canonical form
fn mutate_schema(t: &mut Tape, s: &MSchema) -> MSchema {
	let mut m = s.clone();
	fn first_named(s: &mut MSchema, f: &mut dyn FnMut(&mut MSchema) -> bool) -> bool {
		if matches!(s.ty, MType::Record { .. } | MType::Enum { .. } | MType::Fixed { .. }) && f(s) {
			return true;
		}
		match &mut s.ty {
			MType::Array(i) | MType::Map(i) => first_named(i, f),
			MType::Union(bs) => bs.iter_mut().any(|b| first_named(b, f)),
			MType::Record { fields, .. } => fields.iter_mut().any(|(_, fs)| first_named(fs, f)),
			_ => false,
		}
	}
	let choice = t.below(5);
	let done = match choice {
		0 => first_named(&mut m, &mut |n| match &mut n.ty {
			MType::Record { fields, .. } if fields.len() >= 2 => {
				fields.swap(0, 1);
				true
			}
			_ => false,
		}),
		1 => first_named(&mut m, &mut |n| match &mut n.ty {
			MType::Enum { symbols, .. } => {
				symbols.push("EXTRA_SYMBOL".into());
				true
			}
			_ => false,
		}),
		2 => first_named(&mut m, &mut |n| match &mut n.ty {
			MType::Fixed { size, .. } if n.logical.is_none() => {
				*size += 1;
				true
			}
			_ => false,
		}),
		3 => first_named(&mut m, &mut |n| match &mut n.ty {
			MType::Record { fields, .. } if !fields.is_empty() => {
				fields[0].0.push_str("_renamed");
				true
			}
			_ => false,
		}),
		_ => false,
	};
	if done {
		m
	} else {
		MSchema::plain(MType::Array(Box::new(m)))
	}
}

pub fn run(tape: &[u8], ctx: &mut Ctx) {
	let mut t = Tape::new(tape);
	let Some(case) = gen_schema_case(&mut t, GenCfg::default(), ctx, "C18") else { return };
	let env = Env::new(&case.schema);
	let f = schema_labels(&case.schema, ctx);
	let value = ValueGen::new(&mut t, &env, ValCfg { max_str: 60, max_coll: 6, max_nodes: 80, ..ValCfg::default() }).gen(&case.schema);
	let p = {
		let mut pr = Presenter::new(&mut t, &env, Mode::Promised);
		pr.present(&case.schema, &value)
	};
	let cfg = CapCfg::from_tape(&mut t);
	let mut sc = SerializerConfig::new(&case.crate_schema);
	let bytes = match serde_avro_fast::to_single_object_vec(&p, &mut sc) {
		Ok(b) => b,
		Err(e) => {
			ctx.violation("C18/serialize-failed", format!("schema {} value {:?} presented as {:?}: {e}", case.json, value, p));
			return;
		}
	};
	let fp = fingerprint(&case.schema);
	let mut evals = 1u64;
	// layout
	if bytes.len() < 10 || bytes[0..2] != [0xC3, 0x01] {
		ctx.violation("C18/marker-wrong", format!("schema {}: single object starts with {}", case.json, hex(&bytes[..bytes.len().min(10)])));
		return;
	}
	if bytes[2..10] != fp {
		ctx.violation("C18/fingerprint-wrong", format!("schema {} (PCF {}): header fingerprint {} but CRC-64-AVRO(PCF) little-endian is {}", case.json, pcf(&case.schema), hex(&bytes[2..10]), hex(&fp)));
		return;
	}
	match decode_strict(&env, &case.schema, &bytes[10..]) {
		Ok((v, n)) if n == bytes.len() - 10 && v.same(&value) => {}
		other => {
			ctx.violation("C18/datum-part-wrong", format!("schema {} value {:?}: datum part {} decodes to {:?}", case.json, value, hex(&bytes[10..]), other));
			return;
		}
	}
	// the same message through writers that accept only k bytes per call
	for k in [1usize, 2, 3, 7, 8, 9, 64] {
		evals += 1;
		let mut sink = crate::io::ScheduledSink::new(vec![], k, t.bool());
		let mut sc2 = SerializerConfig::new(&case.crate_schema);
		match serde_avro_fast::to_single_object(&p, &mut sink, &mut sc2) {
			Ok(_) => {
				if sink.delivered != bytes {
					ctx.violation("C18/short-writes-change-the-message", format!("schema {}: a writer accepting {k} bytes per call received {} instead of {}", case.json, hex(&sink.delivered), hex(&bytes)));
				}
			}
			Err(e) => ctx.violation("C18/short-writes-make-serialization-fail", format!("schema {} k={k}: {e}", case.json)),
		}
	}
	// read back
	for chunk in [None, Some(1usize), Some(3), Some(10), Some(11)] {
		evals += 1;
		match capture_single(&env, &case.schema, &case.crate_schema, &bytes, &cfg, chunk) {
			Ok(v) if v.same(&value) => {}
			other => ctx.violation(format!("C18/read-back-wrong/{}", if chunk.is_none() { "slice" } else { "reader" }), format!("schema {} bytes {} (chunk {chunk:?}): expected {:?} got {:?}", case.json, hex(&bytes), value, other)),
		}
	}
	// every single-bit corruption of the header
	for byte in 0..10 {
		for bit in 0..8 {
			let mut bad = bytes.clone();
			bad[byte] ^= 1 << bit;
			for chunk in [None, Some(1usize), Some(64)] {
				evals += 1;
				if let Ok(v) = capture_single(&env, &case.schema, &case.crate_schema, &bad, &cfg, chunk) {
					ctx.violation(format!("C18/corrupt-header-accepted/{}", if byte < 2 { "marker" } else { "fingerprint" }), format!("schema {} header byte {byte} bit {bit} flipped ({}), chunk {chunk:?}: decoded {:?}", case.json, hex(&bad[..10]), v));
				}
			}
		}
	}
	// every truncation
	for n in 0..bytes.len() {
		for chunk in [None, Some(1usize), Some(7)] {
			evals += 1;
			if let Ok(v) = capture_single(&env, &case.schema, &case.crate_schema, &bytes[..n], &cfg, chunk) {
				ctx.violation(format!("C18/truncated-accepted/{}", if n < 10 { "header" } else { "datum" }), format!("schema {} input truncated to {n} of {} bytes, chunk {chunk:?}: decoded {:?}", case.json, bytes.len(), v));
			}
		}
	}
	// another schema with a different canonical form
	let other = if t.bool() { mutate_schema(&mut t, &case.schema) } else { SchemaGen::new(&mut t, GenCfg::default()).gen() };
	let other_json = spell_plain(&other);
	let mut would_decode = false;
	if fingerprint(&other) != fp {
		if let Ok(other_cs) = other_json.parse::<serde_avro_fast::Schema>() {
			let oenv = Env::new(&other);
			would_decode = matches!(decode_strict(&oenv, &other, &bytes[10..]), Ok((_, n)) if n == bytes.len() - 10);
			ctx.label(if would_decode { "other-schema:datum-would-decode" } else { "other-schema:datum-would-not-decode" });
			for chunk in [None, Some(1usize), Some(64)] {
				evals += 1;
				if let Ok(v) = capture_single(&oenv, &other, &other_cs, &bytes, &cfg, chunk) {
					ctx.violation("C18/wrong-schema-accepted", format!("message written under {} (fp {}) was decoded under {} (reference fp {}) as {:?}, chunk {chunk:?}", case.json, hex(&fp), other_json, hex(&fingerprint(&other)), v));
				}
			}
			// and the other direction of the layout claim: the other schema's writer emits its own fingerprint
			if other_cs.rabin_fingerprint() == &fp {
				ctx.violation("C18/fingerprint-collision-between-different-pcf", format!("{} and {} have different reference PCF but the crate reports the same fingerprint", case.json, other_json));
			}
		}
	} else {
		ctx.label("other-schema:same-pcf");
	}
	ctx.sub_evaluations = evals;
	ctx.nontrivial = would_decode || f.named > 0 || f.logical > 0;
	ctx.hash_case(&format!("{}|{}", case.json, hex(&bytes)));
	if ctx.want_sample {
		ctx.sample = Some(serde_json::json!({"schema": trunc(&case.json, 500), "value": trunc(&format!("{value:?}"), 300), "single_object_hex": trunc(&hex(&bytes), 200), "reference_pcf": trunc(&pcf(&case.schema), 300), "other_schema": trunc(&other_json, 300), "datum_would_decode_under_other": would_decode}));
	}
}
