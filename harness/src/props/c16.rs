//! C16 Container writer output independent of sink write schedule; sink errors surface.

use super::container::*;
use crate::driver::Ctx;
use crate::io::{ScheduledSink, SinkAct};
use crate::model::container::*;
use crate::tape::Tape;
use serde_avro_fast::ser::SerializerConfig;

pub const RULE: &str = "case = (op list of accepted values over {serialize, serialize_all, push_serialized, finish_block} then into_inner, codec, approx_block_size) replayed against schedule-driven sinks and compared with the byte stream a Vec receives (same enforced sync marker): uniform k bytes per call for every k in {1,2,3,5,16,17,header-1,header,header+1,all}, tape-chosen irregular schedules, 'interrupted' injected at EVERY call index in turn, for sinks with and without vectored writes (a vectored write may accept a prefix ending inside any of the three slices); then a hard error (its ErrorKind rotating over Other, WouldBlock, BrokenPipe, TimedOut, WriteZero, UnexpectedEof, PermissionDenied, OutOfMemory, InvalidInput) and Ok(0) injected at EVERY call index in turn: the writer call during which it happens must return Err and the bytes delivered before it must be a prefix of the reference stream; \
non-trivial = some partial vectored write ended strictly inside the header, data or sync slice, or an interruption hit a vectored call; distinct = hash of (schema JSON, history outline)";

struct RunResult {
	delivered: Vec<u8>,
	/// (op index or usize::MAX for build / usize::MAX-1 for into_inner, result ok?)
	failed_at: Option<(String, String)>,
	faulted_during: Option<String>,
	partial_inside: [u64; 8],
	interrupted_on_vectored: u64,
	calls: u64,
}

fn run_with_sink(h: &Hist, sink: ScheduledSink) -> RunResult {
	let mut sc = SerializerConfig::new(&h.case.crate_schema);
	let mut accepted = Vec::new();
	let mut sink = sink;
	let mut failed_at = None;
	let mut faulted_during: Option<String> = None;
	{
		let mut w = match build_writer(&mut sc, h, &mut sink) {
			Ok(w) => Some(w),
			Err(e) => {
				failed_at = Some(("build".to_string(), e));
				None
			}
		};
		if let Some(wr) = w.as_mut() {
			for (i, op) in h.ops.iter().enumerate() {
				let was_faulted = wr.inner().faulted;
				let r = apply_op(wr, h, op, &mut accepted);
				let now_faulted = wr.inner().faulted;
				if !was_faulted && now_faulted {
					faulted_during = Some(format!("op #{i} {op:?}"));
				}
				if let Err(e) = r {
					failed_at = Some((format!("op #{i} {op:?}"), e));
					break;
				}
				if now_faulted {
					// the fault happened during this call but the call returned Ok
					failed_at = None;
					break;
				}
			}
		}
		if let Some(wr) = w {
			if failed_at.is_none() && faulted_during.is_none() {
				let was_faulted = wr.inner().faulted;
				let _ = was_faulted;
				// into_inner consumes the writer; the sink is borrowed, inspect it afterwards
				match wr.into_inner() {
					Ok(_) => {}
					Err(e) => failed_at = Some(("into_inner".to_string(), e.to_string())),
				}
			} else {
				// after a fault the sink swallows everything, so the writer's Drop (which
				// flushes, and panics in debug mode if that fails - documented) is harmless
				drop(wr);
			}
		}
	}
	if faulted_during.is_none() && sink.faulted {
		faulted_during = Some(if failed_at.as_ref().map(|f| f.0 == "build").unwrap_or(false) { "build".into() } else { "into_inner".into() });
	}
	RunResult { delivered: sink.delivered, failed_at, faulted_during, partial_inside: sink.partial_inside, interrupted_on_vectored: sink.interrupted_on_vectored, calls: sink.calls }
}

pub fn run(tape: &[u8], ctx: &mut Ctx) {
	let mut t = Tape::new(tape);
	let hc = HistCfg { allow_bad: false, allow_big: false, max_ops: 6, codecs: &[Codec::Null, Codec::Null, Codec::Deflate, Codec::Snappy, Codec::Zstandard], user_meta: false };
	let Some(h) = gen_hist(&mut t, ctx, "C16", &hc) else { return };
	ctx.label(format!("codec:{}", h.codec.name()));
	let outline = hist_outline(&h);
	// reference stream
	let reference = run_with_sink(&h, ScheduledSink::new(vec![], usize::MAX, true));
	if let Some((at, e)) = &reference.failed_at {
		ctx.violation("C16/write-failed-on-accepting-sink", format!("schema {} {outline}: {at}: {e}", h.case.json));
		return;
	}
	let refbytes = reference.delivered;
	let header_len = match ref_parse(&refbytes) {
		Ok(f) => f.header_len,
		Err(e) => {
			ctx.violation("C16/reference-stream-invalid", format!("schema {} {outline}: {e}", h.case.json));
			return;
		}
	};
	let mut evals = 1u64;
	let mut partial_inside = [0u64; 8];
	let mut interrupted_vectored = 0u64;
	let mut compare = |ctx: &mut Ctx, what: String, r: &RunResult| -> bool {
		if let Some((at, e)) = &r.failed_at {
			ctx.violation("C16/benign-schedule-made-a-call-fail", format!("schema {} {outline} [{what}]: {at}: {e}", h.case.json));
			return false;
		}
		if r.delivered != refbytes {
			let first = r.delivered.iter().zip(&refbytes).position(|(a, b)| a != b).unwrap_or(r.delivered.len().min(refbytes.len()));
			ctx.violation("C16/stream-differs-under-schedule", format!("schema {} {outline} [{what}]: sink received {} bytes, a fully accepting sink receives {}; first difference at offset {first} (header is {header_len} bytes)", h.case.json, r.delivered.len(), refbytes.len()));
			return false;
		}
		true
	};
	// uniform schedules
	let mut ks: Vec<usize> = vec![1, 2, 3, 5, 16, 17, header_len.saturating_sub(1).max(1), header_len, header_len + 1, usize::MAX];
	ks.dedup();
	for vectored in [true, false] {
		for &k in &ks {
			let r = run_with_sink(&h, ScheduledSink::new(vec![], k, vectored));
			evals += 1;
			for i in 0..8 {
				partial_inside[i] += r.partial_inside[i];
			}
			if !compare(ctx, format!("uniform k={k} vectored={vectored}"), &r) {
				ctx.sub_evaluations = evals;
				return;
			}
		}
	}
	// irregular schedules
	for _ in 0..4 {
		let n = 1 + t.below(40);
		let sched: Vec<SinkAct> = (0..n).map(|_| if t.chance(40) { SinkAct::Interrupted } else { SinkAct::Accept(1 + t.below(40)) }).collect();
		let vectored = t.bool();
		let r = run_with_sink(&h, ScheduledSink::new(sched.clone(), 1 + t.below(64), vectored));
		evals += 1;
		for i in 0..8 {
			partial_inside[i] += r.partial_inside[i];
		}
		interrupted_vectored += r.interrupted_on_vectored;
		if !compare(ctx, format!("irregular {sched:?} vectored={vectored}"), &r) {
			ctx.sub_evaluations = evals;
			return;
		}
	}
	// Interrupted / hard error / zero at every call index, for a mid-size chunking
	let k = *t.pick(&[7usize, 16, 50, 1000]);
	let vectored = t.bool();
	let base = run_with_sink(&h, ScheduledSink::new(vec![], k, vectored));
	let ncalls = (base.calls as usize).min(200);
	for i in 0..ncalls {
		let mut sched: Vec<SinkAct> = vec![SinkAct::Accept(k); i];
		sched.push(SinkAct::Interrupted);
		let r = run_with_sink(&h, ScheduledSink::new(sched, k, vectored));
		evals += 1;
		interrupted_vectored += r.interrupted_on_vectored;
		if !compare(ctx, format!("interrupted at call {i} (k={k} vectored={vectored})"), &r) {
			ctx.sub_evaluations = evals;
			return;
		}
	}
	for (fault, name) in [(SinkAct::HardError, "hard-error"), (SinkAct::Zero, "zero-write")] {
		for i in 0..ncalls {
			let mut sched: Vec<SinkAct> = vec![SinkAct::Accept(k); i];
			sched.push(fault.clone());
			let mut sink = ScheduledSink::new(sched, k, vectored);
			// every error kind other than Interrupted is final; the kind rotates with the call index
			const KINDS: &[std::io::ErrorKind] = &[std::io::ErrorKind::Other, std::io::ErrorKind::WouldBlock, std::io::ErrorKind::BrokenPipe, std::io::ErrorKind::TimedOut, std::io::ErrorKind::WriteZero, std::io::ErrorKind::UnexpectedEof, std::io::ErrorKind::PermissionDenied, std::io::ErrorKind::OutOfMemory, std::io::ErrorKind::InvalidInput];
			sink.hard_error_kind = KINDS[(i + header_len) % KINDS.len()];
			let r = run_with_sink(&h, sink);
			evals += 1;
			match (&r.faulted_during, &r.failed_at) {
				(Some(during), Some((at, _))) => {
					if during != at {
						ctx.violation(format!("C16/sink-{name}-surfaced-in-another-call"), format!("schema {} {outline}: {name} at sink call {i} happened during {during} but the error was returned by {at}", h.case.json));
					}
				}
				(Some(during), None) => {
					ctx.violation(format!("C16/sink-{name}-swallowed"), format!("schema {} {outline} (k={k} vectored={vectored}): {name} at sink call {i} happened during {during}, which returned Ok", h.case.json));
					ctx.sub_evaluations = evals;
					return;
				}
				(None, Some((at, e))) => {
					ctx.violation("C16/spurious-failure", format!("schema {} {outline}: no fault delivered but {at} failed: {e}", h.case.json));
				}
				(None, None) => {
					// the schedule's fault index was beyond the calls actually made
				}
			}
			if !refbytes.starts_with(&r.delivered) {
				ctx.violation(format!("C16/bytes-before-{name}-not-a-prefix"), format!("schema {} {outline}: {name} at sink call {i}: delivered {} bytes are not a prefix of the reference stream", h.case.json, r.delivered.len()));
			}
		}
	}
	ctx.sub_evaluations = evals;
	ctx.count("schedules_run", evals);
	ctx.count("partial_vectored_inside_header_slice", partial_inside[0]);
	ctx.count("partial_vectored_inside_data_slice", partial_inside[1]);
	ctx.count("partial_vectored_inside_sync_slice", partial_inside[2]);
	ctx.count("interrupted_on_vectored_call", interrupted_vectored);
	ctx.nontrivial = partial_inside[0] + partial_inside[1] + partial_inside[2] > 0 || interrupted_vectored > 0;
	ctx.hash_case(&format!("{}|{outline}", h.case.json));
	if ctx.want_sample {
		let mut s = hist_sample(&h);
		s["reference_stream_len"] = refbytes.len().into();
		s["header_len"] = header_len.into();
		s["schedules_run"] = evals.into();
		s["sink_calls_enumerated_for_faults"] = ncalls.into();
		ctx.sample = Some(s);
	}
}
