//! C13 Record bytes independent of field order; omitted nullable fields encode as null.

use super::common::*;
use crate::driver::Ctx;
use crate::model::*;
use crate::present::*;
use crate::tape::Tape;
use serde_avro_fast::ser::SerializerConfig;

pub const RULE: &str = "case = (generated schema containing records, conforming value, one target record among those the presentation visits); the target record is presented in EVERY permutation of its fields when it has <=5 fields (else 24 tape-chosen permutations) x every subset (<=8) of its nullable fields holding null omitted x {struct, map with serialize_entry, map with key-then-value}, all other records under a fixed tape-chosen (possibly shuffled) presentation; plus the three injections (unknown field, duplicated field, omitted required field) at the target; \
non-trivial = the target record is presented out of order and the presentation contains another out-of-order record, or a nullable field that is not the last one is omitted; distinct = hash of (schema JSON, value, target)";

fn permutations(n: usize) -> Vec<Vec<usize>> {
	fn go(cur: &mut Vec<usize>, used: &mut Vec<bool>, n: usize, out: &mut Vec<Vec<usize>>) {
		if cur.len() == n {
			out.push(cur.clone());
			return;
		}
		for i in 0..n {
			if !used[i] {
				used[i] = true;
				cur.push(i);
				go(cur, used, n, out);
				cur.pop();
				used[i] = false;
			}
		}
	}
	let mut out = Vec::new();
	go(&mut Vec::new(), &mut vec![false; n], n, &mut out);
	out
}

pub fn run(tape: &[u8], ctx: &mut Ctx) {
	let mut t = Tape::new(tape);
	let Some(case) = gen_schema_case(&mut t, GenCfg::default(), ctx, "C13") else { return };
	let env = Env::new(&case.schema);
	let f = schema_labels(&case.schema, ctx);
	if !f.kinds.contains("record") {
		ctx.label("no-record");
		return;
	}
	let value = ValueGen::new(&mut t, &env, ValCfg { max_coll: 5, max_nodes: 150, ..ValCfg::default() }).gen(&case.schema);
	let reference = match encode_single(&env, &case.schema, &value) {
		Ok(b) => b,
		Err(e) => {
			ctx.violation("harness/model-encode", e);
			return;
		}
	};
	// dry run: which records does the presentation visit?
	let t0 = t.clone();
	let records = {
		let mut t2 = t0.clone();
		let mut pr = Presenter::new(&mut t2, &env, Mode::Promised);
		let _ = pr.present(&case.schema, &value);
		pr.records_seen
	};
	if records.is_empty() {
		ctx.label("no-record-visited");
		return;
	}
	let target = t.below(records.len());
	let (target_node, nfields, nullable_null) = records[target].clone();
	let perms: Vec<Vec<usize>> = if nfields <= 5 {
		permutations(nfields)
	} else {
		let mut v = vec![(0..nfields).collect::<Vec<_>>(), (0..nfields).rev().collect()];
		for _ in 0..22 {
			let mut p: Vec<usize> = (0..nfields).collect();
			for i in (1..nfields).rev() {
				let j = t.below(i + 1);
				p.swap(i, j);
			}
			v.push(p);
		}
		v
	};
	let nn = nullable_null.len().min(3);
	let mut evals = 0u64;
	let mut any_nested_reorder = false;
	let mut omitted_not_last = false;
	let mut first_bytes: Option<Vec<u8>> = None;
	for perm in &perms {
		for mask in 0..(1u32 << nn) {
			let omit: Vec<usize> = (0..nn).filter(|b| mask & (1 << b) != 0).map(|b| nullable_null[b]).collect();
			let style = (evals % 3) as u8;
			let mut t2 = t0.clone();
			let mut pr = Presenter::new(&mut t2, &env, Mode::Promised);
			pr.forced = Some(ForcedRecord { target, order: perm.clone(), omit: omit.clone(), style });
			let p = pr.present(&case.schema, &value);
			if pr.reordered_records >= 2 {
				any_nested_reorder = true;
			}
			if omit.iter().any(|i| *i + 1 != nfields) {
				omitted_not_last = true;
			}
			evals += 1;
			let mut sc = SerializerConfig::new(&case.crate_schema);
			match serde_avro_fast::to_datum_vec(&p, &mut sc) {
				Ok(bytes) => {
					match decode_strict(&env, &case.schema, &bytes) {
						Ok((v, n)) if n == bytes.len() && v.same(&value) => {}
						other => {
							ctx.violation("C13/permuted-record-wrong-encoding", format!("schema {} value {:?} target record #{target} order {:?} omit {:?} style {style}: bytes {} decode to {:?}; schema-order encoding is {}", case.json, value, perm, omit, hex(&bytes), other, hex(&reference)));
							ctx.sub_evaluations = evals;
							return;
						}
					}
					match &first_bytes {
						None => first_bytes = Some(bytes),
						Some(fb) => {
							if *fb != bytes {
								ctx.violation("C13/bytes-depend-on-field-order", format!("schema {} value {:?} target record #{target} order {:?} omit {:?} style {style}: bytes {} differ from the first presentation's {}", case.json, value, perm, omit, hex(&bytes), hex(fb)));
								ctx.sub_evaluations = evals;
								return;
							}
						}
					}
				}
				Err(e) => {
					ctx.violation("C13/permuted-record-rejected", format!("schema {} value {:?} target record #{target} order {:?} omit {:?} style {style} presentation {:?}: {e}", case.json, value, perm, omit, p));
					ctx.sub_evaluations = evals;
					return;
				}
			}
		}
	}
	// the same bytes must reach a writer that accepts only k bytes per call (out-of-order fields are
	// copied from side buffers: a different code path per order)
	if let Some(fb) = &first_bytes {
		let mut t3 = t0.clone();
		let mut pr = Presenter::new(&mut t3, &env, Mode::Promised);
		pr.forced = Some(ForcedRecord { target, order: (0..nfields).rev().collect(), omit: vec![], style: 0 });
		let p2 = pr.present(&case.schema, &value);
		for k in [1usize, 2, 3, 7] {
			let mut sink = crate::io::ScheduledSink::new(vec![], k, k % 2 == 0);
			let mut sc = SerializerConfig::new(&case.crate_schema);
			evals += 1;
			match serde_avro_fast::to_datum(&p2, &mut sink, &mut sc) {
				Ok(_) => {
					if sink.delivered != *fb {
						ctx.violation("C13/short-writes-change-the-record", format!("schema {} value {:?} reversed field order: a writer accepting {k} bytes per call received {} instead of {}", case.json, value, hex(&sink.delivered), hex(fb)));
						break;
					}
				}
				Err(e) => {
					ctx.violation("C13/permuted-record-rejected", format!("schema {} value {:?} reversed field order into a short-writing sink (k={k}): {e}", case.json, value));
					break;
				}
			}
		}
	}
	// injections at the target record: must be Err (a panic is caught by the driver)
	for k in 0..6u8 {
		let mut t2 = t0.clone();
		// vary the tail of the tape so the injection kind/position varies
		let mut salt = vec![k.wrapping_mul(41), k.wrapping_mul(97).wrapping_add(13), k.wrapping_mul(151)];
		salt.extend_from_slice(tape);
		let mut ts = Tape::new(&salt);
		let _ = &mut t2;
		let mut pr = Presenter::new(&mut ts, &env, Mode::Promised);
		pr.mutate_at = Some(target_node);
		let p = pr.present(&case.schema, &value);
		let Some(m) = pr.mutation.clone() else { continue };
		if !m.starts_with("record-") {
			continue;
		}
		evals += 1;
		ctx.label(format!("injection:{m}"));
		let mut sc = SerializerConfig::new(&case.crate_schema);
		if let Ok(bytes) = serde_avro_fast::to_datum_vec(&p, &mut sc) {
			ctx.violation(format!("C13/injection-accepted/{m}"), format!("schema {} presentation {:?} ({m}) returned Ok with bytes {}", case.json, p, hex(&bytes)));
			continue;
		}
		// the rejected record must not disturb the next one: the same configuration (as the
		// documentation recommends, and as the container writer does) serialises the value with
		// the target's fields in reverse order to the schema-order bytes - no panic, no misplaced field
		let mut t3 = t0.clone();
		let mut pr = Presenter::new(&mut t3, &env, Mode::Promised);
		pr.forced = Some(ForcedRecord { target, order: (0..nfields).rev().collect(), omit: vec![], style: k % 3 });
		let p2 = pr.present(&case.schema, &value);
		evals += 1;
		match serde_avro_fast::to_datum_vec(&p2, &mut sc) {
			Ok(bytes) => {
				if first_bytes.as_ref().map_or(false, |fb| *fb != bytes) {
					ctx.violation("C13/bytes-differ-after-rejected-record", format!("schema {} value {:?}: after the rejected presentation ({m}) the same configuration wrote {} for the reversed field order instead of {}", case.json, value, hex(&bytes), hex(first_bytes.as_ref().unwrap())));
				}
			}
			Err(e) => ctx.violation("C13/permuted-record-rejected-after-rejected-record", format!("schema {} value {:?}: after the rejected presentation ({m}) the reversed field order was refused: {e}", case.json, value)),
		}
	}
	ctx.sub_evaluations = evals;
	ctx.nontrivial = any_nested_reorder || omitted_not_last;
	ctx.count("permutations_presented", evals);
	if nfields <= 5 {
		ctx.label("target:exhaustive-permutations");
	}
	ctx.hash_case(&format!("{}|{:?}|{target}", case.json, value));
	if ctx.want_sample {
		ctx.sample = Some(serde_json::json!({"schema": trunc(&case.json, 500), "value": trunc(&format!("{value:?}"), 300), "target_record": target, "target_fields": nfields, "nullable_fields_holding_null": nullable_null, "presentations": evals, "schema_order_encoding_hex": trunc(&hex(&reference), 200)}));
	}
}
