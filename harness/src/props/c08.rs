//! C08 Fingerprint equals CRC-64-AVRO of the Parsing Canonical Form.

use super::c07::make_forward;
use super::common::*;
use crate::driver::Ctx;
use crate::model::*;
use crate::tape::Tape;
use serde_avro_fast::schema::SchemaMut;
use std::sync::atomic::{AtomicU64, Ordering};

pub const RULE: &str = "case = (generated schema AST - one third of them with long random identifiers as names, field names and symbols so that the checksum visits all 256 table indices -, obtained by parsing a tape-chosen JSON spelling or through the graph builder); the crate's fingerprint (frozen schema and SchemaMut accessor) must equal the bit-serial CRC-64-AVRO of the reference Parsing Canonical Form, little-endian; a second spelling must give the same fingerprint; a one-step semantic mutation (field swap, symbol added, size changed, rename, wrap in array, branch reorder) must give a different one whenever the reference fingerprints differ; \
non-trivial = the schema repeats a named type (reference form in PCF) or carries logical types / extra attributes that PCF drops, or is a long-identifier case; distinct = hash of the reference PCF; coverage.table_indices_covered counts the CRC table indices exercised by this run (must be 256)";

static IDX: [AtomicU64; 256] = [const { AtomicU64::new(0) }; 256];

pub fn finish(counters: &mut std::collections::BTreeMap<String, u64>) {
	for (i, a) in IDX.iter().enumerate() {
		let n = a.load(Ordering::Relaxed);
		if n > 0 {
			counters.insert(format!("crc_table_index_{i:03}"), n);
		}
	}
}

fn mutate(t: &mut Tape, s: &MSchema) -> MSchema {
	let mut m = s.clone();
	fn visit(s: &mut MSchema, k: &mut usize, f: &mut dyn FnMut(&mut MSchema) -> bool) -> bool {
		if *k == 0 && f(s) {
			return true;
		}
		*k = k.saturating_sub(1);
		match &mut s.ty {
			MType::Array(i) | MType::Map(i) => visit(i, k, f),
			MType::Union(bs) => bs.iter_mut().any(|b| visit(b, k, f)),
			MType::Record { fields, .. } => fields.iter_mut().any(|(_, fs)| visit(fs, k, f)),
			_ => false,
		}
	}
	let mut k = t.below(8);
	let choice = t.below(6);
	let done = visit(&mut m, &mut k, &mut |n| match (&mut n.ty, choice) {
		(MType::Record { fields, .. }, 0) if fields.len() >= 2 => {
			fields.swap(0, 1);
			true
		}
		(MType::Enum { symbols, .. }, 1) => {
			symbols.push("EXTRA_SYMBOL".into());
			true
		}
		(MType::Fixed { size, .. }, 2) if n.logical.is_none() => {
			*size += 1;
			true
		}
		(MType::Record { fields, .. }, 3) if !fields.is_empty() => {
			fields[0].0.push_str("_r");
			true
		}
		(MType::Union(bs), 4) if bs.len() >= 2 => {
			bs.swap(0, 1);
			true
		}
		_ => false,
	});
	if done {
		m
	} else {
		MSchema::plain(MType::Array(Box::new(m)))
	}
}

fn crate_fp(ast: &MSchema, t: &mut Tape, ctx: &mut Ctx, tag: &str) -> Option<[u8; 8]> {
	let via_nodes = t.chance(64);
	let sm: Result<SchemaMut, String> = if via_nodes {
		// builder API, with structurally identical unnamed sub-trees shared between parents
		// (one node referenced several times denotes the same schema, hence the same fingerprint)
		let mut nodes = to_nodes(ast);
		if super::c09::share_unnamed(t, &mut nodes) > 0 {
			ctx.label("graph:shared-unnamed-subtree");
		}
		Ok(SchemaMut::from_nodes(nodes))
	} else {
		let text = {
			let mut sp = Speller::with_tape(t, true);
			sp.omit_zero_scale = false;
			sp.spell(ast)
		};
		text.parse::<SchemaMut>().map_err(|e| format!("{text}: {e}"))
	};
	let sm = match sm {
		Ok(s) => s,
		Err(e) => {
			ctx.violation("C08/valid-schema-rejected", format!("{tag}: {e}"));
			return None;
		}
	};
	let a = match sm.canonical_form_rabin_fingerprint() {
		Ok(a) => a,
		Err(e) => {
			ctx.violation("C08/fingerprint-error", format!("{tag}: {e}"));
			return None;
		}
	};
	match sm.freeze() {
		Ok(s) => {
			if *s.rabin_fingerprint() != a {
				ctx.violation("C08/frozen-fingerprint-differs-from-schemamut", format!("{tag}: {} vs {}", hex(s.rabin_fingerprint()), hex(&a)));
			}
		}
		Err(e) => ctx.violation("C08/valid-schema-rejected", format!("{tag}: freeze: {e}")),
	}
	Some(a)
}

pub fn run(tape: &[u8], ctx: &mut Ctx) {
	let mut t = Tape::new(tape);
	let mut cfg = GenCfg::default();
	cfg.wide_decimals = true;
	cfg.long_names = t.chance(85);
	let long = cfg.long_names;
	let ast0 = SchemaGen::new(&mut t, cfg).gen();
	let f = schema_labels(&ast0, ctx);
	let ast = if t.chance(40) { make_forward(&mut t, &ast0).unwrap_or_else(|| ast0.clone()) } else { ast0.clone() };
	// PCF is defined on the first-occurrence normal form
	let norm = normalize_first_occurrence(&ast);
	let text = pcf(&norm);
	let mut seen = [0u32; 256];
	let want = crc64_trace_indices(text.as_bytes(), &mut seen).to_le_bytes();
	for (i, n) in seen.iter().enumerate() {
		if *n > 0 {
			IDX[i].fetch_add(*n as u64, Ordering::Relaxed);
		}
	}
	if long {
		ctx.label("names:long-random");
	}
	ctx.nontrivial = f.refs > 0 || f.logical > 0 || long;
	ctx.hash_case(&text);
	if ctx.want_sample {
		ctx.sample = Some(serde_json::json!({"reference_pcf": trunc(&text, 700), "reference_fingerprint_le_hex": hex(&want)}));
	}
	let Some(a) = crate_fp(&ast, &mut t, ctx, &text) else { return };
	if a != want {
		ctx.violation("C08/fingerprint-differs-from-reference", format!("reference PCF {text}\n CRC-64-AVRO little-endian {} but the crate reports {}", hex(&want), hex(&a)));
		return;
	}
	// second spelling
	if let Some(b) = crate_fp(&ast0, &mut t, ctx, &text) {
		if b != a {
			ctx.violation("C08/fingerprint-depends-on-spelling", format!("reference PCF {text}: {} vs {}", hex(&a), hex(&b)));
		}
	}
	// semantic mutation
	let m = mutate(&mut t, &ast0);
	// history: fingerprint, edit through nodes_mut(), fingerprint again / freeze. The
	// fingerprint must follow the edit (nothing stale), also on a clone taken before.
	if validate(&m).is_ok() && t.chance(128) {
		let mut sm = if t.bool() { SchemaMut::from_nodes(to_nodes(&ast0)) } else { match spell_plain(&ast0).parse::<SchemaMut>() { Ok(s) => s, Err(_) => SchemaMut::from_nodes(to_nodes(&ast0)) } };
		let before = sm.canonical_form_rabin_fingerprint().ok();
		let snapshot = sm.clone();
		*sm.nodes_mut() = to_nodes(&m);
		let mwant = crc64_avro(pcf(&normalize_first_occurrence(&m)).as_bytes()).to_le_bytes();
		ctx.label("history:fingerprint-edit-fingerprint");
		match sm.canonical_form_rabin_fingerprint() {
			Ok(fp) if fp == mwant => {}
			other => ctx.violation("C08/fingerprint-stale-after-edit", format!("fingerprint() = {:?} before the edit; after replacing the nodes through nodes_mut() by a graph whose reference fingerprint is {} it reports {:?}", before.map(|b| hex(&b)), hex(&mwant), other.map(|b| hex(&b)).map_err(|e| e.to_string()))),
		}
		match sm.freeze() {
			Ok(s) if *s.rabin_fingerprint() == mwant => {}
			Ok(s) => ctx.violation("C08/fingerprint-stale-after-edit", format!("frozen schema after an edit reports {} instead of {}", hex(s.rabin_fingerprint()), hex(&mwant))),
			Err(e) => ctx.violation("C08/valid-schema-rejected", format!("edited graph: {e}")),
		}
		if snapshot.canonical_form_rabin_fingerprint().ok() != before {
			ctx.violation("C08/clone-fingerprint-changed", "a clone taken before the edit changed its fingerprint".to_string());
		}
	}
	let mtext = pcf(&normalize_first_occurrence(&m));
	if validate(&m).is_ok() && mtext != text {
		let mwant = crc64_avro(mtext.as_bytes()).to_le_bytes();
		if let Some(c) = crate_fp(&m, &mut t, ctx, &mtext) {
			if c != mwant {
				ctx.violation("C08/fingerprint-differs-from-reference", format!("reference PCF {mtext}\n CRC-64-AVRO little-endian {} but the crate reports {}", hex(&mwant), hex(&c)));
			}
			if mwant != want && c == a {
				ctx.violation("C08/different-schemas-same-fingerprint", format!("{text} vs {mtext}"));
			}
			ctx.label("differing-pair-checked");
		}
	}
}
