//! C01 Datum round trip: decode(encode(v, S), S) = v.

use super::c03::{crate_decode_reader, crate_decode_slice};
use super::common::*;
use crate::capture::*;
use crate::driver::Ctx;
use crate::model::*;
use crate::present::*;
use crate::tape::Tape;
use serde_avro_fast::ser::SerializerConfig;

pub const RULE: &str = "case = (generated schema, conforming value, promised presentation: natural serde shapes, union branches by name or by type under the harness's conservative unambiguity predicate, capture configuration) or a typed Rust family with a generated value; \
non-trivial = the schema has a union with >=2 non-null branches, a logical type, a named-type reference, or nesting depth >=3, or the value holds an array/map with >=2 elements, or the case is a typed one; distinct = hash of (schema JSON, presentation tree)";

pub fn value_has_multi(v: &MValue) -> bool {
	match v {
		MValue::Array(a) => a.len() >= 2 || a.iter().any(value_has_multi),
		MValue::Map(a) => a.len() >= 2 || a.iter().any(|(_, x)| value_has_multi(x)),
		MValue::Union(_, x) => value_has_multi(x),
		MValue::Record(a) => a.iter().any(value_has_multi),
		_ => false,
	}
}

pub fn run(tape: &[u8], ctx: &mut Ctx) {
	let mut t = Tape::new(tape);
	if t.chance(56) {
		ctx.label("family:typed");
		crate::typed::run_typed(&mut t, ctx);
		return;
	}
	ctx.label("family:dynamic");
	let Some(case) = gen_schema_case(&mut t, GenCfg::default(), ctx, "C01") else { return };
	let env = Env::new(&case.schema);
	let f = schema_labels(&case.schema, ctx);
	let value = ValueGen::new(&mut t, &env, ValCfg::default()).gen(&case.schema);
	let (p, cells, tdu, nu, omitted, reordered) = {
		let mut pr = Presenter::new(&mut t, &env, Mode::Promised);
		let p = pr.present(&case.schema, &value);
		(p, pr.cells, pr.type_directed_unions, pr.named_unions, pr.omitted_fields, pr.reordered_records)
	};
	for c in &cells {
		ctx.label(format!("cell:{c}"));
	}
	if tdu > 0 {
		ctx.label("union:type-directed");
	}
	if nu > 0 {
		ctx.label("union:by-name");
	}
	if omitted > 0 {
		ctx.label("record:omitted-nullable");
	}
	if reordered > 0 {
		ctx.label("record:reordered");
	}
	let cfg = CapCfg::from_tape(&mut t);
	let (psizes, ptail) = gen_partition(&mut t, 64);
	ctx.nontrivial = f.unions_multi > 0 || f.logical > 0 || f.refs > 0 || f.depth >= 3 || value_has_multi(&value);
	ctx.hash_case(&format!("{}|{:?}", case.json, p));
	if ctx.want_sample {
		ctx.sample = Some(serde_json::json!({
			"schema": trunc(&case.json, 600),
			"value": trunc(&format!("{value:?}"), 400),
			"presentation": trunc(&format!("{p:?}"), 500),
			"capture": format!("{cfg:?}"),
		}));
	}
	let mut sc = SerializerConfig::new(&case.crate_schema);
	let bytes = match serde_avro_fast::to_datum_vec(&p, &mut sc) {
		Ok(b) => b,
		Err(e) => {
			let how = if e.to_string().contains("Could not serialize") || e.to_string().contains("explicit a variant") { "/union-or-type" } else { "" };
			ctx.violation(format!("C01/serialize-failed{how}"), format!("schema {} value {:?} presented as {:?}: {e}", case.json, value, p));
			return;
		}
	};
	let (r, stats) = crate_decode_slice(&env, &case.schema, &case.crate_schema, &bytes, cfg.clone());
	match r {
		Ok((v, consumed)) => {
			if !v.same(&value) {
				ctx.violation("C01/round-trip-mismatch/slice", format!("schema {} value {:?} presented as {:?} -> bytes {} -> {:?} (capture {:?})", case.json, value, p, hex(&bytes), v, cfg));
			}
			if consumed != bytes.len() {
				ctx.violation("C01/decoder-consumed-mismatch/slice", format!("schema {} bytes {}: consumed {} of {}", case.json, hex(&bytes), consumed, bytes.len()));
			}
		}
		Err(e) => ctx.violation("C01/deserialize-failed/slice", format!("schema {} value {:?} presented as {:?} -> bytes {}: {e} (capture {:?})", case.json, value, p, hex(&bytes), cfg)),
	}
	if !stats.borrow_outside_input.is_empty() {
		ctx.violation("C01/borrow-outside-input", format!("{:?}", stats.borrow_outside_input));
	}
	if stats.borrowed_str + stats.borrowed_bytes > 0 {
		ctx.label("borrowed-deliveries");
	}
	let (r, stats, over) = crate_decode_reader(&env, &case.schema, &case.crate_schema, &bytes, cfg.clone(), psizes.clone(), ptail);
	match r {
		Ok((v, consumed)) => {
			if !v.same(&value) {
				ctx.violation("C01/round-trip-mismatch/reader", format!("schema {} value {:?} -> bytes {} -> {:?} (capture {:?}, chunks {:?}/{})", case.json, value, hex(&bytes), v, cfg, psizes, ptail));
			}
			if consumed != bytes.len() {
				ctx.violation("C01/decoder-consumed-mismatch/reader", format!("schema {} bytes {}: consumed {} of {}", case.json, hex(&bytes), consumed, bytes.len()));
			}
		}
		Err(e) => ctx.violation("C01/deserialize-failed/reader", format!("schema {} value {:?} -> bytes {}: {e} (capture {:?}, chunks {:?}/{})", case.json, value, hex(&bytes), cfg, psizes, ptail)),
	}
	if over {
		ctx.violation("C01/bufread-over-consume", "consume() beyond the exposed buffer");
	}
	if stats.borrowed_str + stats.borrowed_bytes > 0 {
		ctx.violation("C01/borrow-from-reader", "borrowed delivery from a reader input");
	}
}
