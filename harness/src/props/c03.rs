//! C03 Decoder conformance: every spec-valid encoding (any block layout)
//! decodes to the defined value; single-point malformations yield Err.

use super::common::*;
use crate::capture::*;
use crate::driver::Ctx;
use crate::io::ChunkedReader;
use crate::model::*;
use crate::tape::Tape;
use serde::de::DeserializeSeed;
use serde_avro_fast::de::DeserializerState;

pub const RULE: &str = "case = (generated schema, conforming value, tape-chosen block layout, capture configuration[, one malformation]); \
non-trivial = the encoding has >=2 blocks or a negative-count block in some array/map, or a non-minimal decimal, or the case is a malformed one; \
distinct = hash of (schema JSON, encoded bytes, malformation)";

/// Decode with the crate from a slice; returns (captured, bytes consumed)
pub fn crate_decode_slice(env: &Env, ms: &MSchema, cs: &serde_avro_fast::Schema, bytes: &[u8], cfg: CapCfg) -> (Result<(MValue, usize), String>, CapStats) {
	let cctx = CapCtx::new(env, cfg, Some(bytes));
	let mut st = DeserializerState::from_slice(bytes, cs);
	let r = cctx.seed(ms).deserialize(st.deserializer());
	let left = {
		use std::io::BufRead;
		let mut rd = st.into_reader();
		rd.fill_buf().map(|b| b.len()).unwrap_or(0)
	};
	let stats = cctx.stats.borrow().clone();
	(r.map(|v| (v, bytes.len() - left)).map_err(|e| e.to_string()), stats)
}

pub fn crate_decode_reader(env: &Env, ms: &MSchema, cs: &serde_avro_fast::Schema, bytes: &[u8], cfg: CapCfg, sizes: Vec<usize>, tail: usize) -> (Result<(MValue, usize), String>, CapStats, bool) {
	let cctx = CapCtx::new(env, cfg, None);
	let rd = ChunkedReader::new(bytes, sizes, tail);
	let mut st = DeserializerState::from_reader(rd, cs);
	let r = cctx.seed(ms).deserialize(st.deserializer());
	let rd = st.into_reader().into_inner();
	let consumed = rd.consumed();
	let over = rd.over_consumed;
	let stats = cctx.stats.borrow().clone();
	(r.map(|v| (v, consumed)).map_err(|e| e.to_string()), stats, over)
}

#[derive(Debug, Clone)]
pub enum Malform {
	BoolByte(usize, u8),
	BadUtf8(usize),
	UnionIdx(usize, usize, i64),
	EnumIdx(usize, usize, i64),
	NegLen(usize, usize, i64),
	NegBlockSize(usize, usize, i64),
	Truncate(usize),
}

fn splice_long(bytes: &[u8], off: usize, len: usize, v: i64) -> Vec<u8> {
	let mut out = bytes[..off].to_vec();
	write_long(v, &mut out);
	out.extend_from_slice(&bytes[off + len..]);
	out
}

pub fn apply_malform(bytes: &[u8], m: &Malform) -> Vec<u8> {
	match m {
		Malform::BoolByte(off, b) => {
			let mut o = bytes.to_vec();
			o[*off] = *b;
			o
		}
		Malform::BadUtf8(off) => {
			let mut o = bytes.to_vec();
			o[*off] = 0xff;
			o
		}
		Malform::UnionIdx(off, len, v) | Malform::EnumIdx(off, len, v) | Malform::NegLen(off, len, v) | Malform::NegBlockSize(off, len, v) => splice_long(bytes, *off, *len, *v),
		Malform::Truncate(n) => bytes[..*n].to_vec(),
	}
}

pub fn choose_malform(t: &mut Tape, bytes: &[u8], marks: &[Mark]) -> Option<Malform> {
	let mut cands: Vec<Malform> = Vec::new();
	for m in marks {
		match &m.kind {
			MarkKind::Bool => cands.push(Malform::BoolByte(m.off, 2 + t.below(254) as u8)),
			MarkKind::StrData | MarkKind::KeyData if m.len > 0 => cands.push(Malform::BadUtf8(m.off + t.below(m.len))),
			MarkKind::UnionIdx(n) => {
				let v = *t.pick(&[*n as i64, *n as i64 + 1, -1, i64::MAX, i64::MIN, (*n as i64) + 1000]);
				cands.push(Malform::UnionIdx(m.off, m.len, v));
			}
			MarkKind::EnumIdx(n) => {
				let v = *t.pick(&[*n as i64, *n as i64 + 1, -1, i64::MAX, i64::MIN, (*n as i64) + 1000]);
				cands.push(Malform::EnumIdx(m.off, m.len, v));
			}
			MarkKind::StrLen | MarkKind::BytesLen | MarkKind::KeyLen => {
				let v = *t.pick(&[-1i64, -2, -64, i64::MIN, -(1 << 40)]);
				cands.push(Malform::NegLen(m.off, m.len, v));
			}
			// (a negative block *byte size* is not asserted: the size is only a skipping
			// hint, the statement's "negative lengths" is read as string/bytes lengths)
			_ => {}
		}
	}
	if !bytes.is_empty() {
		// premature end at a tape-chosen prefix length (every proper prefix is invalid:
		// the encoding under a schema is a prefix code)
		cands.push(Malform::Truncate(t.below(bytes.len())));
		cands.push(Malform::Truncate(bytes.len() - 1));
	}
	if cands.is_empty() {
		None
	} else {
		Some(t.pick(&cands).clone())
	}
}

pub fn run(tape: &[u8], ctx: &mut Ctx) {
	let mut t = Tape::new(tape);
	let Some(case) = gen_schema_case(&mut t, GenCfg::default(), ctx, "C03") else { return };
	let env = Env::new(&case.schema);
	schema_labels(&case.schema, ctx);
	let value = ValueGen::new(&mut t, &env, ValCfg::default()).gen(&case.schema);
	let mut layout_tape = t.clone();
	let (bytes, marks, lstats) = {
		let mut layout = if t.chance(40) { Layout::Single } else { Layout::Tape(&mut layout_tape) };
		let mut enc = Encoder::new(&env, &mut layout);
		let mut out = Vec::new();
		if let Err(e) = enc.encode(&case.schema, &value, &mut out) {
			ctx.violation("harness/model-encode", format!("model could not encode its own value: {e}"));
			return;
		}
		(out, enc.marks, enc.stats)
	};
	// advance main tape past what the layout consumed (deterministic: re-sync by cloning)
	let mut t = layout_tape;
	// model self-consistency
	match decode_strict(&env, &case.schema, &bytes) {
		Ok((v, n)) if n == bytes.len() && v.same(&value) => {}
		other => {
			ctx.violation("harness/model-roundtrip", format!("model decode(encode(v)) != v: {other:?} for {value:?}"));
			return;
		}
	}
	if lstats.multi_block > 0 {
		ctx.label("layout:multi-block");
	}
	if lstats.negative_blocks > 0 {
		ctx.label("layout:negative-count");
	}
	if lstats.padded_decimals > 0 {
		ctx.label("layout:padded-decimal");
	}
	let cfg = CapCfg::from_tape(&mut t);
	let negative = t.chance(100);
	let malform = if negative { choose_malform(&mut t, &bytes, &marks) } else { None };
	let (psizes, ptail) = gen_partition(&mut t, bytes.len());
	ctx.nontrivial = lstats.multi_block > 0 || lstats.negative_blocks > 0 || lstats.padded_decimals > 0 || malform.is_some();
	ctx.hash_case(&format!("{}|{}|{:?}", case.json, hex(&bytes), malform));
	if ctx.want_sample {
		ctx.sample = Some(serde_json::json!({
			"schema": trunc(&case.json, 600),
			"value": trunc(&format!("{value:?}"), 400),
			"encoding_hex": trunc(&hex(&bytes), 300),
			"layout": format!("{lstats:?}"),
			"capture": format!("{cfg:?}"),
			"malformation": format!("{malform:?}"),
		}));
	}

	match &malform {
		None => {
			// positive half: slice
			let (r, stats) = crate_decode_slice(&env, &case.schema, &case.crate_schema, &bytes, cfg.clone());
			match r {
				Ok((v, consumed)) => {
					if !v.same(&value) {
						ctx.violation("C03/valid-encoding-wrong-value/slice", format!("schema {} bytes {} expected {:?} got {:?} (capture {:?})", case.json, hex(&bytes), value, v, cfg));
					}
					if consumed != bytes.len() {
						ctx.violation("C03/valid-encoding-consumed-mismatch/slice", format!("schema {} bytes {}: consumed {} of {}", case.json, hex(&bytes), consumed, bytes.len()));
					}
				}
				Err(e) => {
					if e.contains("capture:") {
						ctx.violation(format!("C03/valid-encoding-misdelivered/slice"), format!("schema {} bytes {} value {:?}: {e} (capture {:?})", case.json, hex(&bytes), value, cfg))
					} else {
						ctx.violation("C03/valid-encoding-rejected/slice", format!("schema {} bytes {} value {:?}: {e} (capture {:?})", case.json, hex(&bytes), value, cfg))
					}
				}
			}
			if !stats.borrow_outside_input.is_empty() {
				ctx.violation("C03/borrow-outside-input", format!("{:?}", stats.borrow_outside_input));
			}
			// reader
			let (r, stats, over) = crate_decode_reader(&env, &case.schema, &case.crate_schema, &bytes, cfg.clone(), psizes.clone(), ptail);
			match r {
				Ok((v, consumed)) => {
					if !v.same(&value) {
						ctx.violation("C03/valid-encoding-wrong-value/reader", format!("schema {} bytes {} expected {:?} got {:?} (capture {:?}, chunks {:?}/{})", case.json, hex(&bytes), value, v, cfg, psizes, ptail));
					}
					if consumed != bytes.len() {
						ctx.violation("C03/valid-encoding-consumed-mismatch/reader", format!("schema {} bytes {}: consumed {} of {}", case.json, hex(&bytes), consumed, bytes.len()));
					}
				}
				Err(e) => ctx.violation("C03/valid-encoding-rejected/reader", format!("schema {} bytes {} value {:?}: {e} (capture {:?}, chunks {:?}/{})", case.json, hex(&bytes), value, cfg, psizes, ptail)),
			}
			if over {
				ctx.violation("C03/bufread-over-consume", "consume() beyond the exposed buffer");
			}
			if stats.borrowed_str + stats.borrowed_bytes > 0 {
				ctx.violation("C03/borrow-from-reader", "borrowed delivery from a reader input");
			}
			// a target that does not want one sub-tree (a struct lacking a field, IgnoredAny):
			// still a valid decoding, the rest of the value must come out unchanged
			if t.chance(64) {
				let total = count_nodes_value(&env, &case.schema, &value);
				let n = (t.u16() as usize * total) >> 16;
				let mut counter = 0;
				let mut skipped = None;
				let expected = replace_nth(&env, &case.schema, &value, n, &mut counter, &mut skipped);
				let mut cfg2 = cfg.clone();
				cfg2.option_mode = false;
				let mut cctx = CapCtx::new(&env, cfg2, Some(&bytes));
				cctx.skip_at = Some(n);
				let mut st = DeserializerState::from_slice(&bytes, &case.crate_schema);
				let r = cctx.seed(&case.schema).deserialize(st.deserializer());
				ctx.label("target:ignores-one-subtree");
				match r {
					Ok(v) => {
						if !v.same(&expected) {
							ctx.violation("C03/valid-encoding-wrong-value/ignoring-target", format!("schema {} bytes {} ignoring node {n} ({:?}): expected {:?} got {:?}", case.json, hex(&bytes), skipped.map(|s| s.0), expected, v));
						}
					}
					Err(e) => ctx.violation("C03/valid-encoding-rejected/ignoring-target", format!("schema {} bytes {} value {:?} ignoring node {n} ({:?}): {e}", case.json, hex(&bytes), value, skipped.map(|s| s.0))),
				}
			}
		}
		Some(m) => {
			let bad = apply_malform(&bytes, m);
			let kind = match m {
				Malform::BoolByte(..) => "bool-byte",
				Malform::BadUtf8(..) => "invalid-utf8",
				Malform::UnionIdx(..) => "union-index",
				Malform::EnumIdx(..) => "enum-index",
				Malform::NegLen(..) => "negative-length",
				Malform::NegBlockSize(..) => "negative-block-size",
				Malform::Truncate(..) => "premature-end",
			};
			ctx.label(format!("malform:{kind}"));
			// the reference decoder must reject it too, else the malformation is not one
			if let Ok((v, n)) = decode_strict(&env, &case.schema, &bad) {
				if n == bad.len() {
					ctx.label("malform:model-accepts(skipped)");
					let _ = v;
					return;
				}
			}
			let (r, _) = crate_decode_slice(&env, &case.schema, &case.crate_schema, &bad, cfg.clone());
			if let Ok((v, _)) = r {
				let mode = if matches!(m, Malform::EnumIdx(..)) && cfg.enum_index { "/index-hint" } else { "" };
				ctx.violation(format!("C03/malformed-accepted/{kind}{mode}/slice"), format!("schema {} malformed bytes {} ({m:?}) decoded to {:?} (capture {:?})", case.json, hex(&bad), v, cfg));
			}
			let (r, _, _) = crate_decode_reader(&env, &case.schema, &case.crate_schema, &bad, cfg.clone(), psizes.clone(), ptail);
			if let Ok((v, _)) = r {
				let mode = if matches!(m, Malform::EnumIdx(..)) && cfg.enum_index { "/index-hint" } else { "" };
				ctx.violation(format!("C03/malformed-accepted/{kind}{mode}/reader"), format!("schema {} malformed bytes {} ({m:?}) decoded to {:?} (capture {:?})", case.json, hex(&bad), v, cfg));
			}
		}
	}
}
