pub mod common;
pub mod c03;

use crate::driver::PropDef;

pub fn registry() -> Vec<PropDef> {
	vec![
		PropDef {
			id: "C03",
			run: c03::run,
			quick_cases: 12_000,
			thorough_cases: 600_000,
			max_tape: 700,
			level: "exploration",
			rule: c03::RULE,
			assumptions: &["the reference encoder/strict decoder in harness/src/model (written from the Avro specification) is correct; it is self-checked on every case (decode_strict(encode(v)) = v)", "capture visitor is tolerant on integer width, strict on value"],
			self_test: Some(crate::selftest::model_self_test),
		},
	]
}

pub fn find(id: &str) -> Option<PropDef> {
	registry().into_iter().find(|p| p.id == id)
}
