//! Counting global allocator with per-thread counters (used by C04).

use std::alloc::{GlobalAlloc, Layout, System};
use std::cell::Cell;

pub struct Counting;

thread_local! {
	static ENABLED: Cell<bool> = const { Cell::new(false) };
	static ALLOCS: Cell<u64> = const { Cell::new(0) };
	static LIVE: Cell<i64> = const { Cell::new(0) };
	static PEAK: Cell<i64> = const { Cell::new(0) };
	static LARGEST: Cell<u64> = const { Cell::new(0) };
}

unsafe impl GlobalAlloc for Counting {
	unsafe fn alloc(&self, layout: Layout) -> *mut u8 {
		note_alloc(layout.size());
		System.alloc(layout)
	}
	unsafe fn dealloc(&self, ptr: *mut u8, layout: Layout) {
		note_free(layout.size());
		System.dealloc(ptr, layout)
	}
	unsafe fn alloc_zeroed(&self, layout: Layout) -> *mut u8 {
		note_alloc(layout.size());
		System.alloc_zeroed(layout)
	}
	unsafe fn realloc(&self, ptr: *mut u8, layout: Layout, new_size: usize) -> *mut u8 {
		note_free(layout.size());
		note_alloc(new_size);
		System.realloc(ptr, layout, new_size)
	}
}

fn note_alloc(size: usize) {
	let _ = ENABLED.try_with(|e| {
		if e.get() {
			ALLOCS.with(|a| a.set(a.get() + 1));
			LARGEST.with(|l| l.set(l.get().max(size as u64)));
			LIVE.with(|l| {
				let v = l.get() + size as i64;
				l.set(v);
				PEAK.with(|p| p.set(p.get().max(v)));
			});
		}
	});
}
fn note_free(size: usize) {
	let _ = ENABLED.try_with(|e| {
		if e.get() {
			LIVE.with(|l| l.set(l.get() - size as i64));
		}
	});
}

#[derive(Debug, Clone, Copy, Default)]
pub struct AllocStats {
	pub allocations: u64,
	pub peak_live_bytes: i64,
	pub largest: u64,
}

/// Run `f` counting this thread's allocations
pub fn measure<R>(f: impl FnOnce() -> R) -> (R, AllocStats) {
	ALLOCS.with(|a| a.set(0));
	LIVE.with(|a| a.set(0));
	PEAK.with(|a| a.set(0));
	LARGEST.with(|a| a.set(0));
	ENABLED.with(|e| e.set(true));
	let r = f();
	ENABLED.with(|e| e.set(false));
	let st = AllocStats { allocations: ALLOCS.with(|a| a.get()), peak_live_bytes: PEAK.with(|a| a.get()), largest: LARGEST.with(|a| a.get()) };
	(r, st)
}
