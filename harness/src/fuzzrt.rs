//! Entry point shared by the cargo-fuzz targets: run one tape through a property's
//! checker; an unknown violation is saved as a replay tape and turned into an abort so
//! that libFuzzer records the input.

use crate::driver::{install_panic_hook, load_known, run_case, save_violation, Known, PropDef};
use std::sync::OnceLock;

struct State {
	def: PropDef,
	known: Vec<Known>,
}
static STATE: OnceLock<State> = OnceLock::new();

pub fn run(id: &str, data: &[u8]) {
	let st = STATE.get_or_init(|| {
		install_panic_hook();
		State { def: crate::props::find(id).expect("unknown property"), known: load_known(std::path::Path::new("/verif/known_findings.txt")) }
	});
	let ctx = run_case(&st.def, data, false);
	for v in &ctx.violations {
		if st.known.iter().any(|k| k.property == st.def.id && k.signature == v.sig) {
			continue;
		}
		let path = save_violation(st.def.id, &v.sig, data, &v.detail, None);
		eprintln!("VIOLATION property={} replay={}", st.def.id, path);
		eprintln!("  signature: {}", v.sig);
		eprintln!("  detail: {}", v.detail);
		std::process::abort();
	}
}
