//! I/O doubles: chunk-controlled BufRead, schedule-driven Write.

use std::io::{self, BufRead, IoSlice, Read, Write};

/// BufRead whose `fill_buf` exposes the next chunk of a given partition.
/// After the partition is exhausted the remaining bytes come in `tail` sized chunks.
pub struct ChunkedReader<'a> {
	data: &'a [u8],
	pos: usize,
	/// end offset of the chunk currently exposed
	chunk_end: usize,
	sizes: Vec<usize>,
	next_size: usize,
	tail: usize,
	pub fill_calls: u64,
	pub read_calls: u64,
	/// fail (io error) at this call index (counting fill_buf+read calls)
	pub fail_at: Option<u64>,
	pub failed: bool,
	pub call_budget: u64,
	pub budget_exceeded: bool,
	pub over_consumed: bool,
}

impl<'a> ChunkedReader<'a> {
	pub fn new(data: &'a [u8], sizes: Vec<usize>, tail: usize) -> Self {
		ChunkedReader { data, pos: 0, chunk_end: 0, sizes, next_size: 0, tail: tail.max(1), fill_calls: 0, read_calls: 0, fail_at: None, failed: false, call_budget: u64::MAX, budget_exceeded: false, over_consumed: false }
	}
	pub fn uniform(data: &'a [u8], k: usize) -> Self {
		Self::new(data, Vec::new(), k)
	}
	pub fn remaining(&self) -> &'a [u8] {
		&self.data[self.pos..]
	}
	pub fn consumed(&self) -> usize {
		self.pos
	}
	fn tick(&mut self) -> io::Result<()> {
		let calls = self.fill_calls + self.read_calls;
		if calls > self.call_budget {
			self.budget_exceeded = true;
			return Err(io::Error::new(io::ErrorKind::Other, "harness: read call budget exceeded"));
		}
		if let Some(f) = self.fail_at {
			if calls == f + 1 {
				self.failed = true;
				return Err(io::Error::new(io::ErrorKind::Other, "injected read error"));
			}
		}
		Ok(())
	}
	fn ensure_chunk(&mut self) {
		if self.pos >= self.chunk_end {
			let sz = if self.next_size < self.sizes.len() {
				let s = self.sizes[self.next_size];
				self.next_size += 1;
				s.max(1)
			} else {
				self.tail
			};
			self.chunk_end = (self.pos + sz).min(self.data.len());
		}
	}
}

impl<'a> Read for ChunkedReader<'a> {
	fn read(&mut self, buf: &mut [u8]) -> io::Result<usize> {
		self.read_calls += 1;
		self.tick()?;
		if buf.is_empty() {
			return Ok(0);
		}
		self.ensure_chunk();
		let avail = &self.data[self.pos..self.chunk_end];
		let n = avail.len().min(buf.len());
		buf[..n].copy_from_slice(&avail[..n]);
		self.pos += n;
		Ok(n)
	}
}

impl<'a> BufRead for ChunkedReader<'a> {
	fn fill_buf(&mut self) -> io::Result<&[u8]> {
		self.fill_calls += 1;
		self.tick()?;
		self.ensure_chunk();
		Ok(&self.data[self.pos..self.chunk_end])
	}
	fn consume(&mut self, amt: usize) {
		if self.pos + amt > self.chunk_end {
			// BufRead contract broken by the caller: remember it, the property reports it
			// (std's BufReader and Take clamp to what they exposed; so does this double)
			self.over_consumed = true;
			self.pos = self.chunk_end;
			return;
		}
		self.pos += amt;
	}
}

/// What the sink does at a given call
#[derive(Clone, Debug, PartialEq)]
pub enum SinkAct {
	/// accept up to k bytes (k >= 1)
	Accept(usize),
	Interrupted,
	HardError,
	Zero,
}

/// Write whose calls follow a schedule; records every delivered byte.
pub struct ScheduledSink {
	/// kind of the error a `HardError` step reports (anything but `Interrupted` is final for a writer)
	pub hard_error_kind: io::ErrorKind,
	pub delivered: Vec<u8>,
	pub schedule: Vec<SinkAct>,
	pub default_k: usize,
	pub calls: u64,
	pub vectored_calls: u64,
	pub plain_calls: u64,
	/// partial vectored write that ended strictly inside slice i (0-based), counted
	pub partial_inside: [u64; 8],
	pub interrupted_on_vectored: u64,
	pub supports_vectored: bool,
	pub faulted: bool,
	/// after a hard error / zero write: swallow everything silently (so that a writer
	/// can be dropped without its final flush failing), nothing more is recorded
	pub blackhole_after_fault: bool,
}

impl ScheduledSink {
	pub fn new(schedule: Vec<SinkAct>, default_k: usize, supports_vectored: bool) -> Self {
		ScheduledSink { hard_error_kind: io::ErrorKind::Other, delivered: Vec::new(), schedule, default_k: default_k.max(1), calls: 0, vectored_calls: 0, plain_calls: 0, partial_inside: [0; 8], interrupted_on_vectored: 0, supports_vectored, faulted: false, blackhole_after_fault: true }
	}
	fn next_act(&mut self) -> SinkAct {
		let i = self.calls as usize;
		self.calls += 1;
		self.schedule.get(i).cloned().unwrap_or(SinkAct::Accept(self.default_k))
	}
}

impl Write for ScheduledSink {
	fn write(&mut self, buf: &[u8]) -> io::Result<usize> {
		self.plain_calls = self.plain_calls.wrapping_add(1);
		if buf.is_empty() {
			// not counted against the schedule
			return Ok(0);
		}
		if self.faulted && self.blackhole_after_fault {
			return Ok(buf.len());
		}
		match self.next_act() {
			SinkAct::Accept(k) => {
				let n = k.min(buf.len());
				self.delivered.extend_from_slice(&buf[..n]);
				Ok(n)
			}
			SinkAct::Interrupted => Err(io::Error::new(io::ErrorKind::Interrupted, "injected interrupt")),
			SinkAct::HardError => {
				self.faulted = true;
				Err(io::Error::new(self.hard_error_kind, "injected hard error"))
			}
			SinkAct::Zero => {
				self.faulted = true;
				Ok(0)
			}
		}
	}
	fn write_vectored(&mut self, bufs: &[IoSlice<'_>]) -> io::Result<usize> {
		self.vectored_calls += 1;
		let total: usize = bufs.iter().map(|b| b.len()).sum();
		if total == 0 {
			return Ok(0);
		}
		if self.faulted && self.blackhole_after_fault {
			return Ok(total);
		}
		if !self.supports_vectored {
			// std's default: write the first non-empty buffer
			let first = bufs.iter().find(|b| !b.is_empty()).unwrap();
			self.plain_calls = self.plain_calls.wrapping_sub(1);
			return self.write(first);
		}
		match self.next_act() {
			SinkAct::Accept(k) => {
				let mut left = k.min(total);
				let n = left;
				for (i, b) in bufs.iter().enumerate() {
					if left == 0 {
						break;
					}
					let take = left.min(b.len());
					self.delivered.extend_from_slice(&b[..take]);
					left -= take;
					if take < b.len() && take > 0 && i < 8 {
						self.partial_inside[i] += 1;
					}
				}
				Ok(n)
			}
			SinkAct::Interrupted => {
				self.interrupted_on_vectored += 1;
				Err(io::Error::new(io::ErrorKind::Interrupted, "injected interrupt"))
			}
			SinkAct::HardError => {
				self.faulted = true;
				Err(io::Error::new(self.hard_error_kind, "injected hard error"))
			}
			SinkAct::Zero => {
				self.faulted = true;
				Ok(0)
			}
		}
	}
	fn flush(&mut self) -> io::Result<()> {
		Ok(())
	}
}
