//! Engines and bookkeeping shared by all properties: case context, known
//! findings, proptest runner, worker processes, shrinking, evidence.

use std::collections::{BTreeMap, BTreeSet};
use std::io::Write as _;
use std::path::{Path, PathBuf};

pub const VERIF_DIR: &str = "/verif";

#[derive(Clone, Debug)]
pub struct Violation {
	pub sig: String,
	pub detail: String,
}

/// Per-case context handed to a property's checker.
pub struct Ctx {
	pub labels: Vec<String>,
	pub nontrivial: bool,
	/// hash of the decoded case structure (for distinctness)
	pub case_hash: u64,
	pub violations: Vec<Violation>,
	pub want_sample: bool,
	pub sample: Option<serde_json::Value>,
	/// numeric side counters a property wants summed into the evidence
	pub counters: Vec<(String, u64)>,
	/// sub-evaluations performed by this case (e.g. truncation offsets); 0 => 1
	pub sub_evaluations: u64,
}

impl Ctx {
	pub fn new(want_sample: bool) -> Self {
		Ctx { labels: Vec::new(), nontrivial: false, case_hash: 0, violations: Vec::new(), want_sample, sample: None, counters: Vec::new(), sub_evaluations: 0 }
	}
	pub fn label(&mut self, l: impl Into<String>) {
		self.labels.push(l.into());
	}
	pub fn count(&mut self, k: &str, n: u64) {
		self.counters.push((k.to_string(), n));
	}
	pub fn violation(&mut self, sig: impl Into<String>, detail: impl Into<String>) {
		let mut d: String = detail.into();
		if d.len() > 4000 {
			d.truncate(4000);
			d.push_str("…");
		}
		self.violations.push(Violation { sig: sig.into(), detail: d });
	}
	pub fn hash_case(&mut self, s: &str) {
		self.case_hash = crate::tape::fnv64(s.as_bytes());
	}
}

pub type RunFn = fn(&[u8], &mut Ctx);

pub struct PropDef {
	pub id: &'static str,
	pub run: RunFn,
	pub quick_cases: u64,
	pub thorough_cases: u64,
	pub max_tape: usize,
	pub level: &'static str,
	pub rule: &'static str,
	pub assumptions: &'static [&'static str],
	/// extra setup performed once per worker (e.g. self tests of the model)
	pub self_test: Option<fn() -> Result<(), String>>,
	/// called at the end of a worker to export property-specific global counters
	pub finish: Option<fn(&mut BTreeMap<String, u64>)>,
}

// ---------------------------------------------------------------------------
// Known findings
// ---------------------------------------------------------------------------

#[derive(Clone, Debug)]
pub struct Known {
	pub property: String,
	pub signature: String,
	pub text: String,
}

pub fn load_known(path: &Path) -> Vec<Known> {
	let mut out = Vec::new();
	let Ok(text) = std::fs::read_to_string(path) else { return out };
	for line in text.lines() {
		let line = line.trim();
		if let Some(rest) = line.strip_prefix("known:") {
			let rest = rest.trim();
			let mut property = String::new();
			let mut signature = String::new();
			let mut words = rest.splitn(3, ' ');
			for _ in 0..2 {
				if let Some(w) = words.next() {
					if let Some(p) = w.strip_prefix("property=") {
						property = p.to_string();
					} else if let Some(s) = w.strip_prefix("signature=") {
						signature = s.to_string();
					}
				}
			}
			let text = words.next().unwrap_or("").to_string();
			if !property.is_empty() && !signature.is_empty() {
				out.push(Known { property, signature, text });
			}
		}
	}
	out
}

// ---------------------------------------------------------------------------
// Panic capture
// ---------------------------------------------------------------------------

thread_local! {
	static LAST_PANIC: std::cell::RefCell<Option<(String, String)>> = const { std::cell::RefCell::new(None) };
}

pub fn install_panic_hook() {
	std::panic::set_hook(Box::new(|info| {
		let loc = info.location().map(|l| format!("{}:{}", l.file(), l.line())).unwrap_or_else(|| "?".into());
		let msg = if let Some(s) = info.payload().downcast_ref::<&str>() {
			s.to_string()
		} else if let Some(s) = info.payload().downcast_ref::<String>() {
			s.clone()
		} else {
			"<non-string panic>".to_string()
		};
		LAST_PANIC.with(|p| *p.borrow_mut() = Some((loc, msg)));
	}));
}

fn short_loc(loc: &str) -> String {
	// keep the path from the crate dir on, drop the line for signature stability across edits? keep the line: it
	// discriminates distinct panics; known findings are keyed on file only.
	let p = loc.rsplit("/repo/").next().unwrap_or(loc);
	p.to_string()
}

/// Run one case, converting panics into violations.
pub fn run_case(def: &PropDef, tape: &[u8], want_sample: bool) -> Ctx {
	let mut ctx = Ctx::new(want_sample);
	let r = std::panic::catch_unwind(std::panic::AssertUnwindSafe(|| (def.run)(tape, &mut ctx)));
	if r.is_err() {
		let (loc, msg) = LAST_PANIC.with(|p| p.borrow_mut().take()).unwrap_or(("?".into(), "?".into()));
		let in_harness = loc.contains("/verif/") || loc.starts_with("src/");
		let file = short_loc(&loc);
		let file_only = file.split(':').next().unwrap_or("").to_string();
		if in_harness {
			ctx.violation(format!("harness-panic/{file}"), format!("HARNESS BUG: panic at {loc}: {msg}"));
		} else {
			ctx.violation(format!("panic/{file_only}"), format!("panic at {loc}: {msg}"));
		}
	}
	ctx
}

// ---------------------------------------------------------------------------
// Worker
// ---------------------------------------------------------------------------

#[derive(Default)]
pub struct WorkerStats {
	pub evaluations: u64,
	pub sub_evaluations: u64,
	pub nontrivial_hashes: BTreeSet<u64>,
	pub labels: BTreeMap<String, u64>,
	pub counters: BTreeMap<String, u64>,
	pub samples: Vec<serde_json::Value>,
	pub known_hits: BTreeMap<String, u64>,
	pub replayed: u64,
	pub violation: Option<(String, String, String)>, // sig, detail, replay path
}

impl WorkerStats {
	fn absorb(&mut self, ctx: &Ctx) {
		self.evaluations += 1;
		self.sub_evaluations += ctx.sub_evaluations.max(1);
		if ctx.nontrivial {
			self.nontrivial_hashes.insert(ctx.case_hash);
		}
		for l in &ctx.labels {
			*self.labels.entry(l.clone()).or_insert(0) += 1;
		}
		for (k, n) in &ctx.counters {
			*self.counters.entry(k.clone()).or_insert(0) += n;
		}
		if let Some(s) = &ctx.sample {
			if self.samples.len() < 6 {
				self.samples.push(s.clone());
			}
		}
	}
	pub fn to_json(&self) -> serde_json::Value {
		serde_json::json!({
			"evaluations": self.evaluations,
			"sub_evaluations": self.sub_evaluations,
			"nontrivial_hashes": self.nontrivial_hashes.iter().map(|h| format!("{h:016x}")).collect::<Vec<_>>(),
			"labels": self.labels,
			"counters": self.counters,
			"samples": self.samples,
			"known_hits": self.known_hits,
			"replayed": self.replayed,
			"violation": self.violation.as_ref().map(|(s, d, p)| serde_json::json!({"sig": s, "detail": d, "replay": p})),
		})
	}
}

pub fn work_dir(id: &str) -> PathBuf {
	let p = Path::new(VERIF_DIR).join("work").join(id);
	let _ = std::fs::create_dir_all(&p);
	p
}

struct Inflight {
	file: std::fs::File,
}
impl Inflight {
	fn new(path: &Path) -> Self {
		Inflight { file: std::fs::OpenOptions::new().create(true).write(true).truncate(true).open(path).expect("inflight file") }
	}
	fn set(&mut self, tape: &[u8]) {
		use std::os::unix::fs::FileExt;
		let mut buf = Vec::with_capacity(tape.len() + 8);
		buf.extend_from_slice(&(tape.len() as u64).to_le_bytes());
		buf.extend_from_slice(tape);
		let _ = self.file.write_all_at(&buf, 0);
	}
}
pub fn read_inflight(path: &Path) -> Option<Vec<u8>> {
	let b = std::fs::read(path).ok()?;
	if b.len() < 8 {
		return None;
	}
	let n = u64::from_le_bytes(b[0..8].try_into().unwrap()) as usize;
	b.get(8..8 + n).map(|s| s.to_vec())
}

/// Classify the violations of a case against the known findings. Returns the
/// first unknown violation, and counts known ones.
fn triage(id: &str, ctx: &Ctx, known: &[Known], strict: bool, hits: &mut BTreeMap<String, u64>) -> Option<Violation> {
	let mut first = None;
	for v in &ctx.violations {
		let is_known = !strict && known.iter().any(|k| k.property == id && k.signature == v.sig);
		if is_known {
			*hits.entry(v.sig.clone()).or_insert(0) += 1;
		} else if first.is_none() {
			first = Some(v.clone());
		}
	}
	first
}

pub fn corpus_tapes(id: &str) -> Vec<PathBuf> {
	let dir = Path::new(VERIF_DIR).join("corpus").join(id);
	let mut v: Vec<PathBuf> = match std::fs::read_dir(&dir) {
		Ok(rd) => rd.filter_map(|e| e.ok().map(|e| e.path())).filter(|p| p.extension().map(|e| e == "tape").unwrap_or(false)).collect(),
		Err(_) => Vec::new(),
	};
	v.sort();
	v
}

pub fn save_violation(id: &str, sig: &str, tape: &[u8], detail: &str, sample: Option<&serde_json::Value>) -> String {
	let dir = work_dir(id).join("violations");
	let _ = std::fs::create_dir_all(&dir);
	let clean: String = sig.chars().map(|c| if c.is_ascii_alphanumeric() || c == '-' || c == '_' { c } else { '_' }).collect();
	let clean = if clean.len() > 80 { clean[..80].to_string() } else { clean };
	let h = crate::tape::fnv64(tape);
	let path = dir.join(format!("{clean}-{h:016x}.tape"));
	let _ = std::fs::write(&path, tape);
	let side = serde_json::json!({"property": id, "signature": sig, "detail": detail, "case": sample, "tape_len": tape.len()});
	let _ = std::fs::write(path.with_extension("json"), serde_json::to_string_pretty(&side).unwrap_or_default());
	path.to_string_lossy().to_string()
}

pub fn run_worker(def: &PropDef, tier: &str, seed: u64, shard: u64, nshards: u64, out: &Path) -> i32 {
	install_panic_hook();
	let known = load_known(&Path::new(VERIF_DIR).join("known_findings.txt"));
	let mut stats = WorkerStats::default();
	let mut inflight = Inflight::new(&work_dir(def.id).join(format!("inflight-{shard}.tape")));

	if let Some(st) = def.self_test {
		if shard == 0 {
			if let Err(e) = st() {
				eprintln!("SELF-TEST FAILURE (harness bug, not a violation): {e}");
				let _ = std::fs::write(out, serde_json::to_string(&serde_json::json!({"self_test_failure": e})).unwrap());
				return 2;
			}
		}
	}

	// 1. replay corpus (shard 0)
	if shard == 0 {
		for p in corpus_tapes(def.id) {
			let Ok(tape) = std::fs::read(&p) else { continue };
			inflight.set(&tape);
			let ctx = run_case(def, &tape, stats.samples.len() < 2);
			stats.absorb(&ctx);
			stats.replayed += 1;
			if let Some(v) = triage(def.id, &ctx, &known, false, &mut stats.known_hits) {
				let path = save_violation(def.id, &v.sig, &tape, &v.detail, ctx.sample.as_ref());
				stats.violation = Some((v.sig, format!("(replay of {}) {}", p.display(), v.detail), path));
				let _ = std::fs::write(out, serde_json::to_string(&stats.to_json()).unwrap());
				return 1;
			}
		}
	}

	// 2. proptest search
	let total = if tier == "thorough" { def.thorough_cases } else { def.quick_cases };
	let total = std::env::var("VERIF_CASES").ok().and_then(|s| s.parse().ok()).unwrap_or(total);
	let cases = (total / nshards + if shard < total % nshards { 1 } else { 0 }) as u32;
	let pseed = seed.wrapping_mul(0x9E3779B97F4A7C15) ^ crate::tape::fnv64(def.id.as_bytes()) ^ (shard.wrapping_mul(0xD6E8FEB86659FD93));
	let failed: std::cell::RefCell<Option<(String, String)>> = std::cell::RefCell::new(None);
	let stats_cell = std::cell::RefCell::new(&mut stats);
	let inflight_cell = std::cell::RefCell::new(&mut inflight);
	if cases > 0 {
		use proptest::prelude::*;
		use proptest::test_runner::{Config, RngSeed, TestCaseError, TestRunner};
		let mut cfg = Config::default();
		cfg.cases = cases;
		cfg.failure_persistence = None;
		cfg.rng_seed = RngSeed::Fixed(pseed);
		cfg.max_shrink_iters = 3000;
		cfg.max_global_rejects = 1;
		cfg.source_file = None;
		cfg.verbose = 0;
		let mut runner = TestRunner::new(cfg);
		let strategy = proptest::collection::vec(any::<u8>(), 0..=def.max_tape);
		let result = runner.run(&strategy, |tape| {
			inflight_cell.borrow_mut().set(&tape);
			let shrinking = failed.borrow().is_some();
			let want_sample = !shrinking && {
				let st = stats_cell.borrow();
				st.samples.len() < 6 && (st.evaluations % 37 == 5 || st.samples.is_empty())
			};
			let ctx = run_case(def, &tape, want_sample);
			if !shrinking {
				let mut st = stats_cell.borrow_mut();
				// samples: prefer non-trivial ones
				if ctx.sample.is_some() && !ctx.nontrivial && st.samples.len() >= 2 {
					let mut c2 = Ctx::new(false);
					c2.labels = ctx.labels.clone();
					c2.nontrivial = ctx.nontrivial;
					c2.case_hash = ctx.case_hash;
					c2.counters = ctx.counters.clone();
					c2.sub_evaluations = ctx.sub_evaluations;
					st.absorb(&c2);
				} else {
					st.absorb(&ctx);
				}
				let mut hits = std::mem::take(&mut st.known_hits);
				let v = triage(def.id, &ctx, &known, false, &mut hits);
				st.known_hits = hits;
				if let Some(v) = v {
					*failed.borrow_mut() = Some((v.sig.clone(), v.detail.clone()));
					return Err(TestCaseError::fail(v.sig));
				}
				Ok(())
			} else {
				// shrinking: a candidate fails only if it reproduces the same signature
				let want = failed.borrow().as_ref().unwrap().0.clone();
				if let Some(v) = ctx.violations.iter().find(|v| v.sig == want) {
					*failed.borrow_mut() = Some((v.sig.clone(), v.detail.clone()));
					Err(TestCaseError::fail(v.sig.clone()))
				} else {
					Ok(())
				}
			}
		});
		if let Err(e) = result {
			match e {
				proptest::test_runner::TestError::Fail(_, tape) => {
					// re-run the minimal tape to get the final detail and a sample
					let ctx = run_case(def, &tape, true);
					let (sig, detail) = {
						let f = failed.borrow();
						let want = f.as_ref().map(|f| f.0.clone()).unwrap_or_default();
						match ctx.violations.iter().find(|v| v.sig == want) {
							Some(v) => (v.sig.clone(), v.detail.clone()),
							None => f.clone().unwrap_or_default(),
						}
					};
					let path = save_violation(def.id, &sig, &tape, &detail, ctx.sample.as_ref());
					let st = stats_cell.into_inner();
					st.violation = Some((sig, detail, path));
					let _ = std::fs::write(out, serde_json::to_string(&st.to_json()).unwrap());
					return 1;
				}
				proptest::test_runner::TestError::Abort(r) => {
					eprintln!("proptest aborted: {r}");
					let st = stats_cell.into_inner();
					let _ = std::fs::write(out, serde_json::to_string(&st.to_json()).unwrap());
					return 2;
				}
			}
		}
	}
	drop(stats_cell);
	drop(inflight_cell);
	if let Some(f) = def.finish {
		f(&mut stats.counters);
	}
	let _ = std::fs::write(out, serde_json::to_string(&stats.to_json()).unwrap());
	0
}

// ---------------------------------------------------------------------------
// Supervisor
// ---------------------------------------------------------------------------

fn n_workers(tier: &str) -> u64 {
	if let Ok(s) = std::env::var("VERIF_WORKERS") {
		if let Ok(n) = s.parse() {
			return n;
		}
	}
	if tier == "thorough" {
		16
	} else {
		8
	}
}

pub struct Merged {
	pub evaluations: u64,
	pub sub_evaluations: u64,
	pub nontrivial: BTreeSet<String>,
	pub labels: BTreeMap<String, u64>,
	pub counters: BTreeMap<String, u64>,
	pub samples: Vec<serde_json::Value>,
	pub known_hits: BTreeMap<String, u64>,
	pub replayed: u64,
	pub violations: Vec<(String, String, String)>,
}

pub fn supervise(def: &PropDef, tier: &str, seed: u64) -> i32 {
	let start = std::time::Instant::now();
	let exe = std::env::current_exe().expect("current_exe");
	let n = n_workers(tier);
	let wd = work_dir(def.id);
	let mut children = Vec::new();
	for shard in 0..n {
		let out = wd.join(format!("worker-{shard}.json"));
		let _ = std::fs::remove_file(&out);
		let child = std::process::Command::new(&exe)
			.args(["worker", def.id, tier, &seed.to_string(), &shard.to_string(), &n.to_string()])
			.arg(&out)
			.stdout(std::process::Stdio::inherit())
			.stderr(std::process::Stdio::inherit())
			.spawn()
			.expect("spawn worker");
		children.push((shard, child, out));
	}
	let budget = std::time::Duration::from_secs(std::env::var("VERIF_TIMEOUT_S").ok().and_then(|s| s.parse().ok()).unwrap_or(if tier == "thorough" { 3 * 3600 } else { 900 }));
	let mut merged = Merged { evaluations: 0, sub_evaluations: 0, nontrivial: BTreeSet::new(), labels: BTreeMap::new(), counters: BTreeMap::new(), samples: Vec::new(), known_hits: BTreeMap::new(), replayed: 0, violations: Vec::new() };
	let mut inconclusive = false;
	for (shard, mut child, out) in children {
		let status = loop {
			match child.try_wait() {
				Ok(Some(st)) => break Some(st),
				Ok(None) => {
					if start.elapsed() > budget {
						let _ = child.kill();
						let _ = child.wait();
						break None;
					}
					std::thread::sleep(std::time::Duration::from_millis(20));
				}
				Err(_) => break None,
			}
		};
		match status {
			None => {
				eprintln!("worker {shard}: watchdog expired -> inconclusive");
				inconclusive = true;
			}
			Some(st) => {
				use std::os::unix::process::ExitStatusExt;
				if let Some(sig) = st.signal() {
					// process death: attribute to the in-flight tape
					let inflight = wd.join(format!("inflight-{shard}.tape"));
					match read_inflight(&inflight) {
						Some(tape) => {
							let tape = shrink_abort(def, &exe, tape);
							let sigstr = format!("abort/signal-{sig}");
							let path = save_violation(def.id, &sigstr, &tape, &format!("worker process died with signal {sig} while executing this tape"), None);
							merged.violations.push((sigstr, format!("process death (signal {sig})"), path));
						}
						None => {
							eprintln!("worker {shard} died with signal {sig} and left no in-flight tape");
							inconclusive = true;
						}
					}
					continue;
				}
				let code = st.code().unwrap_or(2);
				if let Ok(text) = std::fs::read_to_string(&out) {
					if let Ok(v) = serde_json::from_str::<serde_json::Value>(&text) {
						merge_into(&mut merged, &v);
					}
				}
				if code == 2 {
					inconclusive = true;
				}
			}
		}
	}
	// known abort findings: signatures starting with abort/ are matched like any other
	let known = load_known(&Path::new(VERIF_DIR).join("known_findings.txt"));
	let mut real_violations = Vec::new();
	for v in &merged.violations {
		if known.iter().any(|k| k.property == def.id && k.signature == v.0) {
			*merged.known_hits.entry(v.0.clone()).or_insert(0) += 1;
		} else {
			real_violations.push(v.clone());
		}
	}
	for (sig, n) in &merged.known_hits {
		let text = known.iter().find(|k| k.property == def.id && k.signature == *sig).map(|k| k.text.clone()).unwrap_or_default();
		println!("KNOWN-FINDING: property={} signature={} hits={} {}", def.id, sig, n, text);
	}
	let wall = start.elapsed().as_secs_f64();
	write_evidence(def, tier, seed, &merged, real_violations.len(), wall);
	println!(
		"{} {}: evaluations={} (sub={}) distinct_nontrivial={} replayed={} workers={} wall={:.1}s",
		def.id,
		tier,
		merged.evaluations,
		merged.sub_evaluations,
		merged.nontrivial.len(),
		merged.replayed,
		n,
		wall
	);
	if !real_violations.is_empty() {
		for (sig, detail, path) in &real_violations {
			println!("VIOLATION property={} replay={}", def.id, path);
			println!("  signature: {sig}");
			println!("  detail: {detail}");
		}
		return 1;
	}
	if inconclusive {
		println!("INCONCLUSIVE property={} (watchdog / infrastructure)", def.id);
		return 2;
	}
	0
}

fn merge_into(m: &mut Merged, v: &serde_json::Value) {
	m.evaluations += v["evaluations"].as_u64().unwrap_or(0);
	m.sub_evaluations += v["sub_evaluations"].as_u64().unwrap_or(0);
	m.replayed += v["replayed"].as_u64().unwrap_or(0);
	if let Some(a) = v["nontrivial_hashes"].as_array() {
		for h in a {
			if let Some(s) = h.as_str() {
				m.nontrivial.insert(s.to_string());
			}
		}
	}
	for (key, target) in [("labels", &mut m.labels), ("counters", &mut m.counters), ("known_hits", &mut m.known_hits)] {
		if let Some(o) = v[key].as_object() {
			for (k, n) in o {
				*target.entry(k.clone()).or_insert(0) += n.as_u64().unwrap_or(0);
			}
		}
	}
	if let Some(a) = v["samples"].as_array() {
		for s in a {
			if m.samples.len() < 8 {
				m.samples.push(s.clone());
			}
		}
	}
	if let Some(o) = v["violation"].as_object() {
		m.violations.push((o["sig"].as_str().unwrap_or("").to_string(), o["detail"].as_str().unwrap_or("").to_string(), o["replay"].as_str().unwrap_or("").to_string()));
	}
}

/// Does this tape kill a fresh process?
fn dies(exe: &Path, id: &str, tape: &[u8]) -> bool {
	let p = work_dir(id).join("shrink-candidate.tape");
	if std::fs::write(&p, tape).is_err() {
		return false;
	}
	let child = std::process::Command::new(exe).args(["replay-raw", id]).arg(&p).stdout(std::process::Stdio::null()).stderr(std::process::Stdio::null()).spawn();
	let Ok(mut child) = child else { return false };
	let start = std::time::Instant::now();
	loop {
		match child.try_wait() {
			Ok(Some(st)) => {
				use std::os::unix::process::ExitStatusExt;
				return st.signal().is_some();
			}
			Ok(None) => {
				// a candidate that runs for long is not a reproduction of the death
				if start.elapsed() > std::time::Duration::from_secs(20) {
					let _ = child.kill();
					let _ = child.wait();
					return false;
				}
				std::thread::sleep(std::time::Duration::from_millis(5));
			}
			Err(_) => return false,
		}
	}
}

fn shrink_abort(def: &PropDef, exe: &Path, tape: Vec<u8>) -> Vec<u8> {
	if !dies(exe, def.id, &tape) {
		return tape;
	}
	let mut cur = tape;
	let mut tries = 0;
	// truncate from the end, then drop chunks, then zero bytes
	let mut chunk = cur.len() / 2;
	while chunk >= 1 && tries < 150 {
		let mut i = 0;
		let mut progressed = false;
		while i + chunk <= cur.len() && tries < 150 {
			let mut cand = cur.clone();
			cand.drain(i..i + chunk);
			tries += 1;
			if dies(exe, def.id, &cand) {
				cur = cand;
				progressed = true;
			} else {
				i += chunk;
			}
		}
		if !progressed {
			chunk /= 2;
		}
	}
	let mut i = 0;
	while i < cur.len() && tries < 250 {
		if cur[i] != 0 {
			let mut cand = cur.clone();
			cand[i] = 0;
			tries += 1;
			if dies(exe, def.id, &cand) {
				cur = cand;
			}
		}
		i += 1;
	}
	cur
}

pub fn write_evidence(def: &PropDef, tier: &str, seed: u64, m: &Merged, violations: usize, wall: f64) {
	let dir = Path::new(VERIF_DIR).join("evidence");
	let _ = std::fs::create_dir_all(&dir);
	let mut samples = m.samples.clone();
	if samples.is_empty() {
		samples.push(serde_json::json!("no sample captured"));
	}
	let table_idx = m.counters.keys().filter(|k| k.starts_with("crc_table_index_")).count();
	let mut counters = m.counters.clone();
	if table_idx > 0 {
		counters.retain(|k, _| !k.starts_with("crc_table_index_"));
		counters.insert("table_indices_covered".into(), table_idx as u64);
		counters.insert("table_index_min_hits".into(), m.counters.iter().filter(|(k, _)| k.starts_with("crc_table_index_")).map(|(_, v)| *v).min().unwrap_or(0));
	}
	let ev = serde_json::json!({
		"property_id": def.id,
		"tier": tier,
		"seed": seed,
		"level": def.level,
		"coverage": {
			"evaluations": m.evaluations,
			"sub_evaluations": m.sub_evaluations,
			"distinct_nontrivial": m.nontrivial.len(),
			"rule": def.rule,
			"samples": samples,
			"replayed_corpus_tapes": m.replayed,
			"label_histogram": m.labels,
			"counters": counters,
			"known_finding_hits": m.known_hits,
			"engine": "proptest TestRunner over entropy tapes (vec<u8>), fixed rng seed; corpus replay first",
		},
		"assumptions": def.assumptions,
		"wall_s": wall,
		"violations": violations,
	});
	let path = dir.join(format!("{}.json", def.id));
	let _ = std::fs::write(path, serde_json::to_string_pretty(&ev).unwrap());
}

/// Strict replay of one tape (known findings are not tolerated)
pub fn replay(def: &PropDef, path: &Path) -> i32 {
	install_panic_hook();
	let tape = match std::fs::read(path) {
		Ok(t) => t,
		Err(e) => {
			eprintln!("cannot read {}: {e}", path.display());
			return 2;
		}
	};
	let ctx = run_case(def, &tape, true);
	if let Some(s) = &ctx.sample {
		println!("case: {}", serde_json::to_string_pretty(s).unwrap_or_default());
	}
	println!("labels: {:?}", ctx.labels);
	if ctx.violations.is_empty() {
		println!("replay: property {} held on this tape", def.id);
		0
	} else {
		for v in &ctx.violations {
			println!("VIOLATION property={} replay={}", def.id, path.display());
			println!("  signature: {}", v.sig);
			println!("  detail: {}", v.detail);
		}
		1
	}
}

pub fn write_tape_file(path: &Path, tape: &[u8]) {
	let mut f = std::fs::File::create(path).expect("create tape");
	f.write_all(tape).expect("write tape");
}
