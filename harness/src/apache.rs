//! apache-avro 0.17 as a second, unrelated implementation (interoperability
//! cross-check in C06 and a cross-check of the reference model).
//! Sub-domain: schemas without logical-type annotations.

use crate::model::container::Codec;
use crate::model::*;
use apache_avro::types::Value as AV;

/// apache-avro 0.17 mishandles several legal spellings (it drops an explicit empty
/// namespace when it re-serialises the schema into the header, and can recurse
/// without bound when decoding after such a mis-resolution), so the cross-check is
/// restricted to schemas without namespaces, recursion or logical types.
pub fn schema_in_apache_domain(s: &MSchema) -> bool {
	let f = features(s);
	if f.recursive || f.namespaces.iter().any(|n| !n.is_empty()) {
		return false;
	}
	no_logical(s)
}

fn no_logical(s: &MSchema) -> bool {
	if s.logical.is_some() {
		return false;
	}
	match &s.ty {
		MType::Array(i) | MType::Map(i) => no_logical(i),
		MType::Union(bs) => bs.iter().all(no_logical),
		MType::Record { fields, .. } => fields.iter().all(|(_, f)| no_logical(f)),
		_ => true,
	}
}

pub fn to_apache(env: &Env, s: &MSchema, v: &MValue) -> Option<AV> {
	let r = env.resolve(s);
	Some(match (&r.ty, v) {
		(MType::Null, MValue::Null) => AV::Null,
		(MType::Boolean, MValue::Bool(b)) => AV::Boolean(*b),
		(MType::Int, MValue::Int(i)) => AV::Int(*i),
		(MType::Long, MValue::Long(i)) => AV::Long(*i),
		(MType::Float, MValue::Float(b)) => AV::Float(f32::from_bits(*b)),
		(MType::Double, MValue::Double(b)) => AV::Double(f64::from_bits(*b)),
		(MType::Bytes, MValue::Bytes(b)) => AV::Bytes(b.clone()),
		(MType::String, MValue::Str(s)) => AV::String(s.clone()),
		(MType::Array(i), MValue::Array(items)) => AV::Array(items.iter().map(|x| to_apache(env, i, x)).collect::<Option<Vec<_>>>()?),
		(MType::Map(i), MValue::Map(items)) => {
			let mut m = std::collections::HashMap::new();
			for (k, x) in items {
				m.insert(k.clone(), to_apache(env, i, x)?);
			}
			AV::Map(m)
		}
		(MType::Union(bs), MValue::Union(i, inner)) => AV::Union(*i as u32, Box::new(to_apache(env, &bs[*i], inner)?)),
		(MType::Record { fields, .. }, MValue::Record(vals)) => AV::Record(fields.iter().zip(vals).map(|((n, f), x)| Some((n.clone(), to_apache(env, f, x)?))).collect::<Option<Vec<_>>>()?),
		(MType::Enum { symbols, .. }, MValue::Enum(i)) => AV::Enum(*i as u32, symbols[*i].clone()),
		(MType::Fixed { size, .. }, MValue::Fixed(b)) => AV::Fixed(*size, b.clone()),
		_ => return None,
	})
}

pub fn from_apache(env: &Env, s: &MSchema, v: &AV) -> Option<MValue> {
	let r = env.resolve(s);
	Some(match (&r.ty, v) {
		(MType::Null, AV::Null) => MValue::Null,
		(MType::Boolean, AV::Boolean(b)) => MValue::Bool(*b),
		(MType::Int, AV::Int(i)) => MValue::Int(*i),
		(MType::Long, AV::Long(i)) => MValue::Long(*i),
		(MType::Float, AV::Float(f)) => MValue::Float(f.to_bits()),
		(MType::Double, AV::Double(f)) => MValue::Double(f.to_bits()),
		(MType::Bytes, AV::Bytes(b)) => MValue::Bytes(b.clone()),
		(MType::String, AV::String(s)) => MValue::Str(s.clone()),
		(MType::Array(i), AV::Array(items)) => MValue::Array(items.iter().map(|x| from_apache(env, i, x)).collect::<Option<Vec<_>>>()?),
		(MType::Map(i), AV::Map(items)) => MValue::Map(items.iter().map(|(k, x)| Some((k.clone(), from_apache(env, i, x)?))).collect::<Option<Vec<_>>>()?),
		(MType::Union(bs), AV::Union(i, inner)) => MValue::Union(*i as usize, Box::new(from_apache(env, bs.get(*i as usize)?, inner)?)),
		(MType::Record { fields, .. }, AV::Record(vals)) => {
			if fields.len() != vals.len() {
				return None;
			}
			MValue::Record(fields.iter().zip(vals).map(|((_, f), (_, x))| from_apache(env, f, x)).collect::<Option<Vec<_>>>()?)
		}
		(MType::Enum { .. }, AV::Enum(i, _)) => MValue::Enum(*i as usize),
		(MType::Fixed { .. }, AV::Fixed(_, b)) => MValue::Fixed(b.clone()),
		_ => return None,
	})
}

pub fn apache_codec(c: Codec) -> apache_avro::Codec {
	match c {
		Codec::Null => apache_avro::Codec::Null,
		Codec::Deflate => apache_avro::Codec::Deflate,
		Codec::Bzip2 => apache_avro::Codec::Bzip2,
		Codec::Snappy => apache_avro::Codec::Snappy,
		Codec::Xz => apache_avro::Codec::Xz,
		Codec::Zstandard => apache_avro::Codec::Zstandard,
	}
}

/// Read a container file with apache-avro. Err(reason) means apache could not
/// handle the case (counted as skipped by callers unless they know better).
pub fn apache_read(env: &Env, ms: &MSchema, bytes: &[u8]) -> Result<Vec<MValue>, String> {
	let rd = std::panic::catch_unwind(|| apache_avro::Reader::new(bytes).map(|r| r.collect::<Vec<_>>())).map_err(|_| "apache-avro panicked".to_string())?;
	let items = rd.map_err(|e| format!("apache reader init: {e}"))?;
	let mut out = Vec::new();
	for it in items {
		let v = it.map_err(|e| format!("apache read: {e}"))?;
		out.push(from_apache(env, ms, &v).ok_or_else(|| format!("apache value {v:?} does not map back"))?);
	}
	Ok(out)
}

/// Write a container file with apache-avro
pub fn apache_write(env: &Env, ms: &MSchema, json: &str, values: &[&MValue], codec: Codec, flush_every: usize) -> Result<Vec<u8>, String> {
	let schema = apache_avro::Schema::parse_str(json).map_err(|e| format!("apache schema: {e}"))?;
	let mut w = apache_avro::Writer::with_codec(&schema, Vec::new(), apache_codec(codec));
	for (i, v) in values.iter().enumerate() {
		let av = to_apache(env, ms, v).ok_or("value not in apache domain")?;
		w.append(av).map_err(|e| format!("apache append: {e}"))?;
		if flush_every > 0 && (i + 1) % flush_every == 0 {
			w.flush().map_err(|e| format!("apache flush: {e}"))?;
		}
	}
	w.into_inner().map_err(|e| format!("apache into_inner: {e}"))
}
