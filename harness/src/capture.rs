//! Model-directed capture of what the crate's deserializer delivers.
//!
//! `Capture` is a `DeserializeSeed` that walks the *model* schema, asks the
//! crate's deserializer with a (tape-chosen) hint per node and records the
//! delivered value as an `MValue`. It is tolerant about the *form* of a
//! delivery where serde's own typed targets are (any integer width for an
//! integer) and strict about the *value*.

use crate::model::*;
use serde::de::{self, DeserializeSeed, Deserializer, EnumAccess, MapAccess, SeqAccess, VariantAccess, Visitor};
use std::cell::RefCell;
use std::fmt;

#[derive(Clone, Debug, Default)]
pub struct CapCfg {
	/// 0: specific typed hints; 1: deserialize_any wherever possible
	pub hint_mode: u8,
	/// enums: false => by symbol, true => by index via deserialize_u64
	pub enum_index: bool,
	/// decimals: 0 str/any, 1 i64, 2 u64, 3 i128, 4 u128
	pub decimal_hint: u8,
	/// duration: 0 tuple, 1 map, 2 bytes, 3 seq
	pub duration_mode: u8,
	/// unions containing null: use deserialize_option
	pub option_mode: bool,
}

impl CapCfg {
	pub fn from_tape(t: &mut crate::tape::Tape) -> Self {
		CapCfg { hint_mode: t.below(2) as u8, enum_index: t.chance(64), decimal_hint: if t.chance(160) { 0 } else { 1 + t.below(4) as u8 }, duration_mode: t.below(4) as u8, option_mode: t.chance(100) }
	}
}

#[derive(Default, Debug, Clone)]
pub struct CapStats {
	pub borrowed_str: usize,
	pub borrowed_bytes: usize,
	pub transient_str: usize,
	pub transient_bytes: usize,
	/// a borrowed delivery that does not point inside the registered input
	pub borrow_outside_input: Vec<String>,
	pub events: usize,
}

pub struct CapCtx<'a> {
	pub env: &'a Env<'a>,
	pub cfg: CapCfg,
	/// address range of the input slice, when deserialising from a slice
	pub input_range: Option<(usize, usize)>,
	pub stats: RefCell<CapStats>,
	/// C12: ignore (IgnoredAny / unit variant) the node with this visit index
	pub skip_at: Option<usize>,
	pub skip_union_payload_as_unit_variant: bool,
	pub node_counter: std::cell::Cell<usize>,
}

pub const SKIPPED: &str = "\u{1}<skipped>";

impl<'a> CapCtx<'a> {
	pub fn new(env: &'a Env<'a>, cfg: CapCfg, input: Option<&[u8]>) -> Self {
		CapCtx { env, cfg, input_range: input.map(|s| (s.as_ptr() as usize, s.as_ptr() as usize + s.len())), stats: RefCell::new(CapStats::default()), skip_at: None, skip_union_payload_as_unit_variant: false, node_counter: std::cell::Cell::new(0) }
	}
	fn check_borrow(&self, ptr: *const u8, len: usize, what: &str) {
		if let Some((lo, hi)) = self.input_range {
			let p = ptr as usize;
			if len > 0 && !(p >= lo && p + len <= hi) {
				self.stats.borrow_mut().borrow_outside_input.push(format!("{what} borrowed {len} bytes at {p:#x} outside input {lo:#x}..{hi:#x}"));
			}
		} else {
			self.stats.borrow_mut().borrow_outside_input.push(format!("{what}: borrowed delivery from a non-slice input"));
		}
	}
	pub fn seed<'c>(&'c self, s: &'c MSchema) -> Capture<'c, 'a> {
		Capture { ctx: self, s }
	}
}

#[derive(Clone, Copy)]
pub struct Capture<'c, 'a> {
	pub ctx: &'c CapCtx<'a>,
	pub s: &'c MSchema,
}

fn parse_decimal_str(v: &str) -> Option<(i128, u32)> {
	let (neg, rest) = match v.strip_prefix('-') {
		Some(r) => (true, r),
		None => (false, v),
	};
	let (int_part, frac_part) = match rest.split_once('.') {
		Some((a, b)) => (a, b),
		None => (rest, ""),
	};
	if int_part.is_empty() || !int_part.bytes().all(|b| b.is_ascii_digit()) || !frac_part.bytes().all(|b| b.is_ascii_digit()) {
		return None;
	}
	let mut digits = String::from(int_part);
	digits.push_str(frac_part);
	let u: i128 = digits.parse().ok()?;
	Some((if neg { -u } else { u }, frac_part.len() as u32))
}

impl<'de, 'c, 'a> DeserializeSeed<'de> for Capture<'c, 'a> {
	type Value = MValue;
	fn deserialize<D: Deserializer<'de>>(self, d: D) -> Result<MValue, D::Error> {
		let env = self.ctx.env;
		let r = env.resolve(self.s);
		let k = kind_of_resolved(r);
		let any = self.ctx.cfg.hint_mode == 1;
		let idx = self.ctx.node_counter.get();
		self.ctx.node_counter.set(idx + 1);
		if self.ctx.skip_at == Some(idx) {
			<serde::de::IgnoredAny as serde::Deserialize>::deserialize(d)?;
			return Ok(MValue::Str(SKIPPED.to_string()));
		}
		let v = CapVisitor { cap: self, r, k: k.clone() };
		match k {
			Kind::Null => {
				if any {
					d.deserialize_any(v)
				} else {
					d.deserialize_unit(v)
				}
			}
			Kind::Boolean => {
				if any {
					d.deserialize_any(v)
				} else {
					d.deserialize_bool(v)
				}
			}
			Kind::Int | Kind::Date | Kind::TimeMillis => {
				if any {
					d.deserialize_any(v)
				} else {
					d.deserialize_i32(v)
				}
			}
			Kind::Long | Kind::TimeMicros | Kind::TimestampMillis | Kind::TimestampMicros => {
				if any {
					d.deserialize_any(v)
				} else {
					d.deserialize_i64(v)
				}
			}
			Kind::Float => {
				if any {
					d.deserialize_any(v)
				} else {
					d.deserialize_f32(v)
				}
			}
			Kind::Double => {
				if any {
					d.deserialize_any(v)
				} else {
					d.deserialize_f64(v)
				}
			}
			Kind::Bytes | Kind::Fixed(_) => {
				if any {
					d.deserialize_any(v)
				} else if self.ctx.cfg.duration_mode % 2 == 0 {
					d.deserialize_bytes(v)
				} else {
					d.deserialize_byte_buf(v)
				}
			}
			Kind::String | Kind::Uuid => {
				if any {
					d.deserialize_any(v)
				} else if self.ctx.cfg.duration_mode % 2 == 0 {
					d.deserialize_str(v)
				} else {
					d.deserialize_string(v)
				}
			}
			Kind::Array => {
				if any {
					d.deserialize_any(v)
				} else {
					// tuples, arrays `[T; N]`, tuple structs and Vec are all sequence targets; which one is
					// used is a function of the other (tape-drawn) options so that old tapes keep their meaning
					let c = &self.ctx.cfg;
					match (c.decimal_hint + c.duration_mode + c.enum_index as u8) % 4 {
						0 => d.deserialize_tuple(1, v),
						1 => d.deserialize_tuple_struct("T", 2, v),
						_ => d.deserialize_seq(v),
					}
				}
			}
			Kind::Map => {
				if any {
					d.deserialize_any(v)
				} else {
					d.deserialize_map(v)
				}
			}
			Kind::Record => {
				if any {
					d.deserialize_any(v)
				} else {
					d.deserialize_struct("R", &[], v)
				}
			}
			Kind::Union => {
				let bs = match &r.ty {
					MType::Union(bs) => bs,
					_ => unreachable!(),
				};
				let has_null = bs.iter().any(|b| env.kind(b) == Kind::Null);
				// an Option target is legal on every union: without a null branch the value is always Some
				let _ = has_null;
				if self.ctx.cfg.option_mode {
					d.deserialize_option(v)
				} else {
					d.deserialize_enum("U", &[], v)
				}
			}
			Kind::Enum => {
				if self.ctx.cfg.enum_index {
					d.deserialize_u64(v)
				} else if any {
					d.deserialize_any(v)
				} else {
					d.deserialize_enum("E", &[], v)
				}
			}
			Kind::DecimalBytes { .. } | Kind::DecimalFixed { .. } | Kind::BigDecimal => match self.ctx.cfg.decimal_hint {
				1 => d.deserialize_i64(v),
				2 => d.deserialize_u64(v),
				3 => d.deserialize_i128(v),
				4 => d.deserialize_u128(v),
				_ => {
					if any {
						d.deserialize_any(v)
					} else {
						d.deserialize_str(v)
					}
				}
			},
			Kind::Duration => match self.ctx.cfg.duration_mode {
				0 => d.deserialize_tuple(3, v),
				1 => {
					if any {
						d.deserialize_any(v)
					} else {
						d.deserialize_map(v)
					}
				}
				2 => d.deserialize_bytes(v),
				_ => d.deserialize_seq(v),
			},
		}
	}
}

struct CapVisitor<'c, 'a> {
	cap: Capture<'c, 'a>,
	r: &'c MSchema,
	k: Kind,
}

impl<'c, 'a> CapVisitor<'c, 'a> {
	/// the capture configuration asks for an integer target and `v` fits its type
	fn int_hint_fits(&self, v: i128) -> bool {
		match self.cap.ctx.cfg.decimal_hint {
			1 => i64::try_from(v).is_ok(),
			2 => u64::try_from(v).is_ok(),
			3 => true,
			4 => v >= 0,
			_ => false,
		}
	}
	fn integer<E: de::Error>(&self, v: i128) -> Result<MValue, E> {
		self.cap.ctx.stats.borrow_mut().events += 1;
		match &self.k {
			Kind::Int | Kind::Date | Kind::TimeMillis => i32::try_from(v).map(MValue::Int).map_err(|_| E::custom(format!("capture: integer {v} delivered for int node"))),
			Kind::Long | Kind::TimeMicros | Kind::TimestampMillis | Kind::TimestampMicros => i64::try_from(v).map(MValue::Long).map_err(|_| E::custom(format!("capture: integer {v} delivered for long node"))),
			Kind::Enum => {
				// index mode: the raw discriminant is delivered; record it even if out of
				// range so the oracle can see a fabricated value
				Ok(MValue::Enum(usize::try_from(v).map_err(|_| E::custom("capture: negative enum index delivered"))?))
			}
			Kind::DecimalBytes { scale } | Kind::DecimalFixed { scale, .. } => {
				// integers are only delivered for scale 0 per the crate's code; in general
				// an integer n denotes n * 10^scale unscaled
				let p = 10i128.checked_pow(*scale).ok_or_else(|| E::custom("capture: scale overflow"))?;
				Ok(MValue::Decimal(v.checked_mul(p).ok_or_else(|| E::custom("capture: decimal overflow"))?))
			}
			Kind::BigDecimal => Ok(MValue::BigDecimal { unscaled: v, scale: 0 }),
			k => Err(E::custom(format!("capture: integer delivered for {k:?}"))),
		}
	}
	fn string<E: de::Error>(&self, v: &str) -> Result<MValue, E> {
		self.cap.ctx.stats.borrow_mut().events += 1;
		match &self.k {
			Kind::String | Kind::Uuid => Ok(MValue::Str(v.to_string())),
			Kind::Enum => match &self.r.ty {
				MType::Enum { symbols, .. } => symbols.iter().position(|s| s == v).map(MValue::Enum).ok_or_else(|| E::custom(format!("capture: unknown symbol {v:?} delivered"))),
				_ => unreachable!(),
			},
			Kind::DecimalBytes { scale } | Kind::DecimalFixed { scale, .. } => {
				let (u, s) = parse_decimal_str(v).ok_or_else(|| E::custom(format!("capture: unparsable decimal {v:?}")))?;
				if s > *scale {
					return Err(E::custom(format!("capture: decimal {v:?} has more fractional digits than the schema scale {scale}")));
				}
				let p = 10i128.checked_pow(*scale - s).ok_or_else(|| E::custom("capture: scale overflow"))?;
				let unscaled = u.checked_mul(p).ok_or_else(|| E::custom("capture: decimal overflow"))?;
				// a real integer target (i64/u64/i128/u128) only accepts an integer delivery: for a
				// scale-0 decimal whose value fits the hinted type a string means the target fails
				if *scale == 0 && self.int_hint_fits(unscaled) {
					return Err(E::custom(format!("capture: decimal {v:?} (scale 0) delivered as a string to an integer target that can hold it (hint {})", self.cap.ctx.cfg.decimal_hint)));
				}
				Ok(MValue::Decimal(unscaled))
			}
			Kind::BigDecimal => {
				let (u, s) = parse_decimal_str(v).ok_or_else(|| E::custom(format!("capture: unparsable decimal {v:?}")))?;
				Ok(MValue::BigDecimal { unscaled: u, scale: s })
			}
			k => Err(E::custom(format!("capture: str {v:?} delivered for {k:?}"))),
		}
	}
	fn bytes<E: de::Error>(&self, v: &[u8]) -> Result<MValue, E> {
		self.cap.ctx.stats.borrow_mut().events += 1;
		match &self.k {
			Kind::Bytes => Ok(MValue::Bytes(v.to_vec())),
			Kind::Fixed(_) => Ok(MValue::Fixed(v.to_vec())),
			Kind::Duration => {
				if v.len() != 12 {
					return Err(E::custom("capture: duration bytes of wrong length"));
				}
				Ok(MValue::Duration(u32::from_le_bytes(v[0..4].try_into().unwrap()), u32::from_le_bytes(v[4..8].try_into().unwrap()), u32::from_le_bytes(v[8..12].try_into().unwrap())))
			}
			k => Err(E::custom(format!("capture: bytes delivered for {k:?}"))),
		}
	}
}

struct U32Seed;
impl<'de> DeserializeSeed<'de> for U32Seed {
	type Value = u32;
	fn deserialize<D: Deserializer<'de>>(self, d: D) -> Result<u32, D::Error> {
		struct V;
		impl<'de> Visitor<'de> for V {
			type Value = u32;
			fn expecting(&self, f: &mut fmt::Formatter) -> fmt::Result {
				f.write_str("u32")
			}
			fn visit_u32<E: de::Error>(self, v: u32) -> Result<u32, E> {
				Ok(v)
			}
			fn visit_u64<E: de::Error>(self, v: u64) -> Result<u32, E> {
				u32::try_from(v).map_err(|_| E::custom("u32 overflow"))
			}
		}
		d.deserialize_u32(V)
	}
}

pub struct StringSeed;
impl<'de> DeserializeSeed<'de> for StringSeed {
	type Value = String;
	fn deserialize<D: Deserializer<'de>>(self, d: D) -> Result<String, D::Error> {
		struct V;
		impl<'de> Visitor<'de> for V {
			type Value = String;
			fn expecting(&self, f: &mut fmt::Formatter) -> fmt::Result {
				f.write_str("string key / identifier")
			}
			fn visit_str<E: de::Error>(self, v: &str) -> Result<String, E> {
				Ok(v.to_string())
			}
			fn visit_string<E: de::Error>(self, v: String) -> Result<String, E> {
				Ok(v)
			}
		}
		d.deserialize_identifier(V)
	}
}

impl<'de, 'c, 'a> Visitor<'de> for CapVisitor<'c, 'a> {
	type Value = MValue;
	fn expecting(&self, f: &mut fmt::Formatter) -> fmt::Result {
		write!(f, "a value for model kind {:?}", self.k)
	}
	fn visit_unit<E: de::Error>(self) -> Result<MValue, E> {
		self.cap.ctx.stats.borrow_mut().events += 1;
		match self.k {
			Kind::Null => Ok(MValue::Null),
			ref k => Err(E::custom(format!("capture: unit delivered for {k:?}"))),
		}
	}
	fn visit_none<E: de::Error>(self) -> Result<MValue, E> {
		self.cap.ctx.stats.borrow_mut().events += 1;
		match &self.k {
			Kind::Null => Ok(MValue::Null),
			Kind::Union => {
				let bs = match &self.r.ty {
					MType::Union(bs) => bs,
					_ => unreachable!(),
				};
				let i = bs.iter().position(|b| self.cap.ctx.env.kind(b) == Kind::Null).ok_or_else(|| E::custom("capture: none delivered for union without null"))?;
				Ok(MValue::Union(i, Box::new(MValue::Null)))
			}
			k => Err(E::custom(format!("capture: none delivered for {k:?}"))),
		}
	}
	fn visit_some<D: Deserializer<'de>>(self, d: D) -> Result<MValue, D::Error> {
		match &self.k {
			Kind::Union => {
				let bs = match &self.r.ty {
					MType::Union(bs) => bs,
					_ => unreachable!(),
				};
				let env = self.cap.ctx.env;
				if bs.len() == 2 && bs.iter().any(|b| env.kind(b) == Kind::Null) {
					// the crate hands the bare branch deserializer
					let i = bs.iter().position(|b| env.kind(b) != Kind::Null).ok_or_else(|| de::Error::custom("capture: some for [null,null]"))?;
					let inner = Capture { ctx: self.cap.ctx, s: &bs[i] }.deserialize(d)?;
					Ok(MValue::Union(i, Box::new(inner)))
				} else {
					// the branch is reported by name through an enum hint
					d.deserialize_enum("U", &[], UnionEnumVisitor { cap: self.cap, bs })
				}
			}
			k => Err(de::Error::custom(format!("capture: some delivered for {k:?}"))),
		}
	}
	fn visit_bool<E: de::Error>(self, v: bool) -> Result<MValue, E> {
		self.cap.ctx.stats.borrow_mut().events += 1;
		match self.k {
			Kind::Boolean => Ok(MValue::Bool(v)),
			ref k => Err(E::custom(format!("capture: bool delivered for {k:?}"))),
		}
	}
	fn visit_i8<E: de::Error>(self, v: i8) -> Result<MValue, E> {
		self.integer(v as i128)
	}
	fn visit_i16<E: de::Error>(self, v: i16) -> Result<MValue, E> {
		self.integer(v as i128)
	}
	fn visit_i32<E: de::Error>(self, v: i32) -> Result<MValue, E> {
		self.integer(v as i128)
	}
	fn visit_i64<E: de::Error>(self, v: i64) -> Result<MValue, E> {
		self.integer(v as i128)
	}
	fn visit_i128<E: de::Error>(self, v: i128) -> Result<MValue, E> {
		self.integer(v)
	}
	fn visit_u8<E: de::Error>(self, v: u8) -> Result<MValue, E> {
		self.integer(v as i128)
	}
	fn visit_u16<E: de::Error>(self, v: u16) -> Result<MValue, E> {
		self.integer(v as i128)
	}
	fn visit_u32<E: de::Error>(self, v: u32) -> Result<MValue, E> {
		self.integer(v as i128)
	}
	fn visit_u64<E: de::Error>(self, v: u64) -> Result<MValue, E> {
		self.integer(v as i128)
	}
	fn visit_u128<E: de::Error>(self, v: u128) -> Result<MValue, E> {
		self.integer(i128::try_from(v).map_err(|_| E::custom("capture: u128 beyond i128"))?)
	}
	fn visit_f32<E: de::Error>(self, v: f32) -> Result<MValue, E> {
		self.cap.ctx.stats.borrow_mut().events += 1;
		match self.k {
			Kind::Float => Ok(MValue::Float(v.to_bits())),
			ref k => Err(E::custom(format!("capture: f32 delivered for {k:?}"))),
		}
	}
	fn visit_f64<E: de::Error>(self, v: f64) -> Result<MValue, E> {
		self.cap.ctx.stats.borrow_mut().events += 1;
		match self.k {
			Kind::Double => Ok(MValue::Double(v.to_bits())),
			ref k => Err(E::custom(format!("capture: f64 delivered for {k:?}"))),
		}
	}
	fn visit_str<E: de::Error>(self, v: &str) -> Result<MValue, E> {
		self.cap.ctx.stats.borrow_mut().transient_str += 1;
		self.string(v)
	}
	fn visit_borrowed_str<E: de::Error>(self, v: &'de str) -> Result<MValue, E> {
		self.cap.ctx.stats.borrow_mut().borrowed_str += 1;
		self.cap.ctx.check_borrow(v.as_ptr(), v.len(), "str");
		self.string(v)
	}
	fn visit_string<E: de::Error>(self, v: String) -> Result<MValue, E> {
		self.string(&v)
	}
	fn visit_bytes<E: de::Error>(self, v: &[u8]) -> Result<MValue, E> {
		self.cap.ctx.stats.borrow_mut().transient_bytes += 1;
		self.bytes(v)
	}
	fn visit_borrowed_bytes<E: de::Error>(self, v: &'de [u8]) -> Result<MValue, E> {
		self.cap.ctx.stats.borrow_mut().borrowed_bytes += 1;
		self.cap.ctx.check_borrow(v.as_ptr(), v.len(), "bytes");
		self.bytes(v)
	}
	fn visit_byte_buf<E: de::Error>(self, v: Vec<u8>) -> Result<MValue, E> {
		self.bytes(&v)
	}
	fn visit_newtype_struct<D: Deserializer<'de>>(self, d: D) -> Result<MValue, D::Error> {
		self.cap.deserialize(d)
	}
	fn visit_seq<A: SeqAccess<'de>>(self, mut seq: A) -> Result<MValue, A::Error> {
		self.cap.ctx.stats.borrow_mut().events += 1;
		match &self.k {
			Kind::Array => {
				let item = match &self.r.ty {
					MType::Array(i) => &**i,
					_ => unreachable!(),
				};
				let mut out = Vec::new();
				while let Some(v) = seq.next_element_seed(Capture { ctx: self.cap.ctx, s: item })? {
					out.push(v);
				}
				Ok(MValue::Array(out))
			}
			Kind::Duration => {
				let a = seq.next_element_seed(U32Seed)?.ok_or_else(|| de::Error::custom("capture: duration seq too short"))?;
				let b = seq.next_element_seed(U32Seed)?.ok_or_else(|| de::Error::custom("capture: duration seq too short"))?;
				let c = seq.next_element_seed(U32Seed)?.ok_or_else(|| de::Error::custom("capture: duration seq too short"))?;
				if seq.next_element_seed(U32Seed)?.is_some() {
					return Err(de::Error::custom("capture: duration seq too long"));
				}
				Ok(MValue::Duration(a, b, c))
			}
			k => Err(de::Error::custom(format!("capture: seq delivered for {k:?}"))),
		}
	}
	fn visit_map<A: MapAccess<'de>>(self, mut map: A) -> Result<MValue, A::Error> {
		self.cap.ctx.stats.borrow_mut().events += 1;
		match &self.k {
			Kind::Map => {
				let item = match &self.r.ty {
					MType::Map(i) => &**i,
					_ => unreachable!(),
				};
				let mut out = Vec::new();
				while let Some(k) = map.next_key_seed(StringSeed)? {
					let v = map.next_value_seed(Capture { ctx: self.cap.ctx, s: item })?;
					out.push((k, v));
				}
				Ok(MValue::Map(out))
			}
			Kind::Record => {
				let fields = match &self.r.ty {
					MType::Record { fields, .. } => fields,
					_ => unreachable!(),
				};
				let mut out = Vec::new();
				for (fname, fs) in fields {
					let k = map.next_key_seed(StringSeed)?.ok_or_else(|| de::Error::custom(format!("capture: record ended before field {fname}")))?;
					if k != *fname {
						return Err(de::Error::custom(format!("capture: record key {k:?} delivered where schema order has {fname:?}")));
					}
					out.push(map.next_value_seed(Capture { ctx: self.cap.ctx, s: fs })?);
				}
				if let Some(k) = map.next_key_seed(StringSeed)? {
					return Err(de::Error::custom(format!("capture: extra record key {k:?}")));
				}
				Ok(MValue::Record(out))
			}
			Kind::Duration => {
				let mut vals = [None, None, None];
				while let Some(k) = map.next_key_seed(StringSeed)? {
					let idx = match k.as_str() {
						"months" => 0,
						"days" => 1,
						"milliseconds" => 2,
						other => return Err(de::Error::custom(format!("capture: duration key {other:?}"))),
					};
					if vals[idx].is_some() {
						return Err(de::Error::custom("capture: duration key twice"));
					}
					vals[idx] = Some(map.next_value_seed(U32Seed)?);
				}
				match vals {
					[Some(a), Some(b), Some(c)] => Ok(MValue::Duration(a, b, c)),
					_ => Err(de::Error::custom("capture: duration map incomplete")),
				}
			}
			k => Err(de::Error::custom(format!("capture: map delivered for {k:?}"))),
		}
	}
	fn visit_enum<A: EnumAccess<'de>>(self, data: A) -> Result<MValue, A::Error> {
		self.cap.ctx.stats.borrow_mut().events += 1;
		match &self.k {
			Kind::Union => {
				let bs = match &self.r.ty {
					MType::Union(bs) => bs,
					_ => unreachable!(),
				};
				UnionEnumVisitor { cap: self.cap, bs }.visit_enum(data)
			}
			Kind::Enum => {
				let (name, variant) = data.variant_seed(StringSeed)?;
				variant.unit_variant()?;
				self.string(&name)
			}
			k => Err(de::Error::custom(format!("capture: enum delivered for {k:?}"))),
		}
	}
}

struct UnionEnumVisitor<'c, 'a> {
	cap: Capture<'c, 'a>,
	bs: &'c [MSchema],
}
impl<'de, 'c, 'a> Visitor<'de> for UnionEnumVisitor<'c, 'a> {
	type Value = MValue;
	fn expecting(&self, f: &mut fmt::Formatter) -> fmt::Result {
		f.write_str("a union branch reported as an enum variant")
	}
	fn visit_enum<A: EnumAccess<'de>>(self, data: A) -> Result<MValue, A::Error> {
		let env = self.cap.ctx.env;
		let (name, variant) = data.variant_seed(StringSeed)?;
		let matches: Vec<usize> = self.bs.iter().enumerate().filter(|(_, b)| branch_name(env, b) == name).map(|(i, _)| i).collect();
		if matches.len() != 1 {
			return Err(de::Error::custom(format!("capture: union variant name {name:?} matches {} branches", matches.len())));
		}
		let i = matches[0];
		let ctx = self.cap.ctx;
		if ctx.skip_union_payload_as_unit_variant && ctx.skip_at == Some(ctx.node_counter.get()) {
			// a unit enum variant for a union branch: the payload is ignored by the crate
			ctx.node_counter.set(ctx.node_counter.get() + 1);
			variant.unit_variant()?;
			return Ok(MValue::Union(i, Box::new(MValue::Str(SKIPPED.to_string()))));
		}
		let inner = variant.newtype_variant_seed(Capture { ctx: self.cap.ctx, s: &self.bs[i] })?;
		Ok(MValue::Union(i, Box::new(inner)))
	}
}

// ---------------------------------------------------------------------------
// Generic "any" tree: what deserialize_any delivers, with no model involved.
// Used for differentials between two paths of the crate (C11, C12, C17).
// ---------------------------------------------------------------------------

#[derive(Clone, Debug, PartialEq)]
pub enum AnyV {
	Unit,
	Bool(bool),
	I(i128),
	F32(u32),
	F64(u64),
	Str(String),
	Bytes(Vec<u8>),
	Seq(Vec<AnyV>),
	Map(Vec<(AnyV, AnyV)>),
}

pub struct AnySeed;
impl<'de> DeserializeSeed<'de> for AnySeed {
	type Value = AnyV;
	fn deserialize<D: Deserializer<'de>>(self, d: D) -> Result<AnyV, D::Error> {
		d.deserialize_any(AnyVisitor)
	}
}
struct AnyVisitor;
impl<'de> Visitor<'de> for AnyVisitor {
	type Value = AnyV;
	fn expecting(&self, f: &mut fmt::Formatter) -> fmt::Result {
		f.write_str("anything")
	}
	fn visit_unit<E: de::Error>(self) -> Result<AnyV, E> {
		Ok(AnyV::Unit)
	}
	fn visit_none<E: de::Error>(self) -> Result<AnyV, E> {
		Ok(AnyV::Unit)
	}
	fn visit_some<D: Deserializer<'de>>(self, d: D) -> Result<AnyV, D::Error> {
		AnySeed.deserialize(d)
	}
	fn visit_newtype_struct<D: Deserializer<'de>>(self, d: D) -> Result<AnyV, D::Error> {
		AnySeed.deserialize(d)
	}
	fn visit_bool<E: de::Error>(self, v: bool) -> Result<AnyV, E> {
		Ok(AnyV::Bool(v))
	}
	fn visit_i32<E: de::Error>(self, v: i32) -> Result<AnyV, E> {
		Ok(AnyV::I(v as i128))
	}
	fn visit_i64<E: de::Error>(self, v: i64) -> Result<AnyV, E> {
		Ok(AnyV::I(v as i128))
	}
	fn visit_u32<E: de::Error>(self, v: u32) -> Result<AnyV, E> {
		Ok(AnyV::I(v as i128))
	}
	fn visit_u64<E: de::Error>(self, v: u64) -> Result<AnyV, E> {
		Ok(AnyV::I(v as i128))
	}
	fn visit_i128<E: de::Error>(self, v: i128) -> Result<AnyV, E> {
		Ok(AnyV::I(v))
	}
	fn visit_u128<E: de::Error>(self, v: u128) -> Result<AnyV, E> {
		Ok(AnyV::I(v as i128))
	}
	fn visit_f32<E: de::Error>(self, v: f32) -> Result<AnyV, E> {
		Ok(AnyV::F32(v.to_bits()))
	}
	fn visit_f64<E: de::Error>(self, v: f64) -> Result<AnyV, E> {
		Ok(AnyV::F64(v.to_bits()))
	}
	fn visit_str<E: de::Error>(self, v: &str) -> Result<AnyV, E> {
		Ok(AnyV::Str(v.to_string()))
	}
	fn visit_bytes<E: de::Error>(self, v: &[u8]) -> Result<AnyV, E> {
		Ok(AnyV::Bytes(v.to_vec()))
	}
	fn visit_seq<A: SeqAccess<'de>>(self, mut seq: A) -> Result<AnyV, A::Error> {
		let mut out = Vec::new();
		while let Some(v) = seq.next_element_seed(AnySeed)? {
			out.push(v);
			if out.len() > 5_000_000 {
				return Err(de::Error::custom("anyseed: too many elements"));
			}
		}
		Ok(AnyV::Seq(out))
	}
	fn visit_map<A: MapAccess<'de>>(self, mut map: A) -> Result<AnyV, A::Error> {
		let mut out = Vec::new();
		while let Some(k) = map.next_key_seed(AnySeed)? {
			let v = map.next_value_seed(AnySeed)?;
			out.push((k, v));
			if out.len() > 5_000_000 {
				return Err(de::Error::custom("anyseed: too many elements"));
			}
		}
		Ok(AnyV::Map(out))
	}
}

// ---------------------------------------------------------------------------
// Digest: a non-allocating target that hashes every event and counts work.
// ---------------------------------------------------------------------------

pub struct Digest<'c> {
	pub state: &'c DigestState,
}
pub struct DigestState {
	pub hash: std::cell::Cell<u64>,
	pub events: std::cell::Cell<u64>,
	pub budget: u64,
}
impl DigestState {
	pub fn new(budget: u64) -> Self {
		DigestState { hash: std::cell::Cell::new(0xcbf29ce484222325), events: std::cell::Cell::new(0), budget }
	}
	fn mix(&self, tag: u8, data: &[u8]) -> Result<(), ()> {
		let mut h = self.hash.get();
		h = (h ^ tag as u64).wrapping_mul(0x100000001b3);
		for &b in data.iter().take(64) {
			h = (h ^ b as u64).wrapping_mul(0x100000001b3);
		}
		h = (h ^ data.len() as u64).wrapping_mul(0x100000001b3);
		self.hash.set(h);
		let e = self.events.get() + 1;
		self.events.set(e);
		if e > self.budget {
			Err(())
		} else {
			Ok(())
		}
	}
}
const BUDGET_MSG: &str = "digest: event budget exceeded";
impl<'de, 'c> DeserializeSeed<'de> for Digest<'c> {
	type Value = ();
	fn deserialize<D: Deserializer<'de>>(self, d: D) -> Result<(), D::Error> {
		d.deserialize_any(self)
	}
}
impl<'de, 'c> Visitor<'de> for Digest<'c> {
	type Value = ();
	fn expecting(&self, f: &mut fmt::Formatter) -> fmt::Result {
		f.write_str("anything")
	}
	fn visit_unit<E: de::Error>(self) -> Result<(), E> {
		self.state.mix(0, &[]).map_err(|_| E::custom(BUDGET_MSG))
	}
	fn visit_none<E: de::Error>(self) -> Result<(), E> {
		self.state.mix(0, &[]).map_err(|_| E::custom(BUDGET_MSG))
	}
	fn visit_some<D: Deserializer<'de>>(self, d: D) -> Result<(), D::Error> {
		d.deserialize_any(self)
	}
	fn visit_bool<E: de::Error>(self, v: bool) -> Result<(), E> {
		self.state.mix(1, &[v as u8]).map_err(|_| E::custom(BUDGET_MSG))
	}
	fn visit_i32<E: de::Error>(self, v: i32) -> Result<(), E> {
		self.state.mix(2, &(v as i64).to_le_bytes()).map_err(|_| E::custom(BUDGET_MSG))
	}
	fn visit_i64<E: de::Error>(self, v: i64) -> Result<(), E> {
		self.state.mix(2, &v.to_le_bytes()).map_err(|_| E::custom(BUDGET_MSG))
	}
	fn visit_u32<E: de::Error>(self, v: u32) -> Result<(), E> {
		self.state.mix(2, &(v as i64).to_le_bytes()).map_err(|_| E::custom(BUDGET_MSG))
	}
	fn visit_u64<E: de::Error>(self, v: u64) -> Result<(), E> {
		self.state.mix(3, &v.to_le_bytes()).map_err(|_| E::custom(BUDGET_MSG))
	}
	fn visit_i128<E: de::Error>(self, v: i128) -> Result<(), E> {
		self.state.mix(3, &v.to_le_bytes()).map_err(|_| E::custom(BUDGET_MSG))
	}
	fn visit_u128<E: de::Error>(self, v: u128) -> Result<(), E> {
		self.state.mix(3, &v.to_le_bytes()).map_err(|_| E::custom(BUDGET_MSG))
	}
	fn visit_f32<E: de::Error>(self, v: f32) -> Result<(), E> {
		self.state.mix(4, &v.to_bits().to_le_bytes()).map_err(|_| E::custom(BUDGET_MSG))
	}
	fn visit_f64<E: de::Error>(self, v: f64) -> Result<(), E> {
		self.state.mix(5, &v.to_bits().to_le_bytes()).map_err(|_| E::custom(BUDGET_MSG))
	}
	fn visit_str<E: de::Error>(self, v: &str) -> Result<(), E> {
		self.state.mix(6, v.as_bytes()).map_err(|_| E::custom(BUDGET_MSG))
	}
	fn visit_bytes<E: de::Error>(self, v: &[u8]) -> Result<(), E> {
		self.state.mix(7, v).map_err(|_| E::custom(BUDGET_MSG))
	}
	fn visit_seq<A: SeqAccess<'de>>(self, mut seq: A) -> Result<(), A::Error> {
		self.state.mix(8, &[]).map_err(|_| de::Error::custom(BUDGET_MSG))?;
		while let Some(()) = seq.next_element_seed(Digest { state: self.state })? {}
		self.state.mix(9, &[]).map_err(|_| de::Error::custom(BUDGET_MSG))
	}
	fn visit_map<A: MapAccess<'de>>(self, mut map: A) -> Result<(), A::Error> {
		self.state.mix(10, &[]).map_err(|_| de::Error::custom(BUDGET_MSG))?;
		while let Some(()) = map.next_key_seed(Digest { state: self.state })? {
			map.next_value_seed(Digest { state: self.state })?;
		}
		self.state.mix(11, &[]).map_err(|_| de::Error::custom(BUDGET_MSG))
	}
}

/// The same event-counting target, but hinting `deserialize_ignored_any` at every node (what
/// `serde::de::IgnoredAny` does) - so that the work done for IGNORED data can be budgeted too.
pub struct IgnoringDigest<'c> {
	pub state: &'c DigestState,
}
impl<'de, 'c> DeserializeSeed<'de> for IgnoringDigest<'c> {
	type Value = ();
	fn deserialize<D: Deserializer<'de>>(self, d: D) -> Result<(), D::Error> {
		d.deserialize_ignored_any(self)
	}
}
macro_rules! ign_forward {
	($($f:ident($t:ty)),*) => { $(fn $f<E: de::Error>(self, v: $t) -> Result<(), E> { Digest { state: self.state }.$f(v) })* };
}
impl<'de, 'c> Visitor<'de> for IgnoringDigest<'c> {
	type Value = ();
	fn expecting(&self, f: &mut fmt::Formatter) -> fmt::Result {
		f.write_str("anything (ignored)")
	}
	fn visit_unit<E: de::Error>(self) -> Result<(), E> {
		Digest { state: self.state }.visit_unit()
	}
	fn visit_none<E: de::Error>(self) -> Result<(), E> {
		Digest { state: self.state }.visit_none()
	}
	fn visit_some<D: Deserializer<'de>>(self, d: D) -> Result<(), D::Error> {
		d.deserialize_ignored_any(self)
	}
	fn visit_newtype_struct<D: Deserializer<'de>>(self, d: D) -> Result<(), D::Error> {
		d.deserialize_ignored_any(self)
	}
	ign_forward!(visit_bool(bool), visit_i32(i32), visit_i64(i64), visit_u32(u32), visit_u64(u64), visit_i128(i128), visit_u128(u128), visit_f32(f32), visit_f64(f64), visit_str(&str), visit_bytes(&[u8]));
	fn visit_seq<A: SeqAccess<'de>>(self, mut seq: A) -> Result<(), A::Error> {
		self.state.mix(8, &[]).map_err(|_| de::Error::custom(BUDGET_MSG))?;
		while let Some(()) = seq.next_element_seed(IgnoringDigest { state: self.state })? {}
		self.state.mix(9, &[]).map_err(|_| de::Error::custom(BUDGET_MSG))
	}
	fn visit_map<A: MapAccess<'de>>(self, mut map: A) -> Result<(), A::Error> {
		self.state.mix(10, &[]).map_err(|_| de::Error::custom(BUDGET_MSG))?;
		while let Some(()) = map.next_key_seed(IgnoringDigest { state: self.state })? {
			map.next_value_seed(IgnoringDigest { state: self.state })?;
		}
		self.state.mix(11, &[]).map_err(|_| de::Error::custom(BUDGET_MSG))
	}
}

/// Model side of the skip numbering: replace the n-th node (pre-order, same
/// order as `Capture` visits them when unions are read through `deserialize_enum`)
pub fn replace_nth(env: &Env, s: &MSchema, v: &MValue, n: usize, counter: &mut usize, skipped: &mut Option<(Kind, MValue)>) -> MValue {
	let idx = *counter;
	*counter += 1;
	let r = env.resolve(s);
	if idx == n {
		*skipped = Some((kind_of_resolved(r), v.clone()));
		return MValue::Str(SKIPPED.to_string());
	}
	match (&r.ty, v) {
		(MType::Array(i), MValue::Array(items)) => MValue::Array(items.iter().map(|x| replace_nth(env, i, x, n, counter, skipped)).collect()),
		(MType::Map(i), MValue::Map(items)) => MValue::Map(items.iter().map(|(k, x)| (k.clone(), replace_nth(env, i, x, n, counter, skipped))).collect()),
		(MType::Union(bs), MValue::Union(bi, inner)) => MValue::Union(*bi, Box::new(replace_nth(env, &bs[*bi], inner, n, counter, skipped))),
		(MType::Record { fields, .. }, MValue::Record(vals)) => MValue::Record(fields.iter().zip(vals).map(|((_, f), x)| replace_nth(env, f, x, n, counter, skipped)).collect()),
		_ => v.clone(),
	}
}
pub fn count_nodes_value(env: &Env, s: &MSchema, v: &MValue) -> usize {
	let mut c = 0;
	let mut sk = None;
	let _ = replace_nth(env, s, v, usize::MAX, &mut c, &mut sk);
	c
}

// ---------------------------------------------------------------------------
// Thread-local route for APIs that want a `T: Deserialize` instead of a seed
// ---------------------------------------------------------------------------

thread_local! {
	static CAP_TLS: std::cell::Cell<(*const (), *const MSchema)> = const { std::cell::Cell::new((std::ptr::null(), std::ptr::null())) };
}

/// Run `f` with (ctx, schema) installed for `TlsCaptured::deserialize`.
pub fn with_capture_tls<'a, R>(ctx: &CapCtx<'a>, s: &MSchema, f: impl FnOnce() -> R) -> R {
	struct Reset((*const (), *const MSchema));
	impl Drop for Reset {
		fn drop(&mut self) {
			CAP_TLS.with(|c| c.set(self.0));
		}
	}
	let prev = CAP_TLS.with(|c| c.replace((ctx as *const CapCtx<'a> as *const (), s as *const MSchema)));
	let _g = Reset(prev);
	f()
}

pub struct TlsCaptured(pub MValue);
impl<'de> serde::Deserialize<'de> for TlsCaptured {
	fn deserialize<D: Deserializer<'de>>(d: D) -> Result<Self, D::Error> {
		let (c, s) = CAP_TLS.with(|c| c.get());
		if c.is_null() {
			return Err(de::Error::custom("capture: no TLS context installed"));
		}
		// SAFETY: installed by with_capture_tls for the duration of the closure, which
		// is the only place this type is deserialised from
		let (ctx, s): (&CapCtx<'_>, &MSchema) = unsafe { (&*(c as *const CapCtx<'_>), &*s) };
		Capture { ctx, s }.deserialize(d).map(TlsCaptured)
	}
}

/// `AnyV` as an owned Deserialize type
pub struct AnyOwned(pub AnyV);
impl<'de> serde::Deserialize<'de> for AnyOwned {
	fn deserialize<D: Deserializer<'de>>(d: D) -> Result<Self, D::Error> {
		AnySeed.deserialize(d).map(AnyOwned)
	}
}
