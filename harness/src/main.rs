use std::path::Path;

fn usage() -> ! {
	eprintln!("usage: vcheck run <ID> quick|thorough | worker <ID> <tier> <seed> <shard> <n> <out> | replay <ID> <tape> | replay-raw <ID> <tape> | list");
	std::process::exit(2);
}

fn main() {
	let args: Vec<String> = std::env::args().collect();
	if args.len() < 2 {
		usage();
	}
	// safety net: a runaway allocation kills this process (attributed to the in-flight
	// tape by the supervisor) instead of the machine
	if matches!(args[1].as_str(), "worker" | "replay" | "replay-raw") {
		let gib: u64 = std::env::var("VERIF_MEM_GIB").ok().and_then(|s| s.parse().ok()).unwrap_or(8);
		let lim = libc::rlimit { rlim_cur: gib << 30, rlim_max: gib << 30 };
		unsafe {
			libc::setrlimit(libc::RLIMIT_AS, &lim);
		}
	}
	let seed: u64 = std::env::var("VERIF_SEED").ok().and_then(|s| s.parse::<i64>().ok()).map(|v| v as u64).unwrap_or(0);
	match args[1].as_str() {
		"maxtape" if args.len() >= 3 => {
			let def = vh::props::find(&args[2]).unwrap_or_else(|| usage());
			println!("{}", def.max_tape);
		}
		"list" => {
			for p in vh::props::registry() {
				println!("{}", p.id);
			}
		}
		"run" if args.len() >= 4 => {
			let def = vh::props::find(&args[2]).unwrap_or_else(|| usage());
			let code = vh::driver::supervise(&def, &args[3], seed);
			std::process::exit(code);
		}
		"worker" if args.len() >= 8 => {
			let def = vh::props::find(&args[2]).unwrap_or_else(|| usage());
			let code = vh::driver::run_worker(&def, &args[3], args[4].parse().unwrap(), args[5].parse().unwrap(), args[6].parse().unwrap(), Path::new(&args[7]));
			std::process::exit(code);
		}
		"replay" if args.len() >= 4 => {
			let def = vh::props::find(&args[2]).unwrap_or_else(|| usage());
			std::process::exit(vh::driver::replay(&def, Path::new(&args[3])));
		}
		"replay-raw" if args.len() >= 4 => {
			// no panic hook, no catch: used to test whether a tape kills the process
			let def = vh::props::find(&args[2]).unwrap_or_else(|| usage());
			let tape = std::fs::read(&args[3]).unwrap_or_default();
			let mut ctx = vh::driver::Ctx::new(false);
			let _ = std::panic::catch_unwind(std::panic::AssertUnwindSafe(|| (def.run)(&tape, &mut ctx)));
			std::process::exit(0);
		}
		_ => usage(),
	}
}
