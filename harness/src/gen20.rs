//! C20: generator of programs (families of type definitions deriving
//! BuildSchema + Serialize + Deserialize) over the supported shapes.

use crate::tape::Tape;
use std::fmt::Write as _;

/// Avro kind a Rust field type maps to (used to keep union branches distinct and to
/// know the selecting name of a union branch)
#[derive(Clone, Debug, PartialEq)]
pub enum AK {
	Int,
	Long,
	Float,
	Double,
	Boolean,
	String,
	Bytes,
	Array,
	Map,
	Union,
	Named(String),
}

impl AK {
	fn branch_name(&self) -> String {
		match self {
			AK::Int => "Int".into(),
			AK::Long => "Long".into(),
			AK::Float => "Float".into(),
			AK::Double => "Double".into(),
			AK::Boolean => "Boolean".into(),
			AK::String => "String".into(),
			AK::Bytes => "Bytes".into(),
			AK::Array => "Array".into(),
			AK::Map => "Map".into(),
			AK::Union => "Union".into(),
			AK::Named(n) => n.clone(),
		}
	}
}

#[derive(Clone, Debug)]
pub struct FieldTy {
	/// Rust type text (paths relative to the crate root, written with `crate::`)
	pub text: String,
	pub kind: AK,
	/// attributes to put on the field (serde_bytes, avro_schema logical types)
	pub attrs: Vec<String>,
	pub contains_union: bool,
	pub logical: bool,
	pub nested_union: bool,
	pub generic_insts: Vec<String>,
}

struct Def {
	path: String,
	kind: AK,
	features: Vec<&'static str>,
	/// usable as a generic argument / union variant payload / plain field
	plain: bool,
	has_lifetime: bool,
}

pub struct Family {
	pub source: String,
	pub n_types: usize,
}

const PRIMS: &[(&str, AK)] = &[("i8", AK::Int), ("i16", AK::Int), ("i32", AK::Int), ("i64", AK::Long), ("u16", AK::Int), ("u32", AK::Long), ("u64", AK::Long), ("f32", AK::Float), ("f64", AK::Double), ("bool", AK::Boolean), ("String", AK::String)];

struct G<'t, 'd> {
	t: &'t mut Tape<'d>,
	defs: Vec<Def>,
	krate: String,
	/// module tree: path -> source text
	mods: Vec<(Vec<String>, String)>,
	generic_defs: Vec<String>,
}

impl<'t, 'd> G<'t, 'd> {
	fn module(&mut self) -> Vec<String> {
		match self.t.below(4) {
			0 | 1 => vec![],
			2 => vec![(*self.t.pick(&["m1", "m2"])).to_string()],
			_ => vec!["m1".to_string(), (*self.t.pick(&["inner", "deep"])).to_string()],
		}
	}
	fn ns(&self, module: &[String]) -> String {
		let mut s = self.krate.clone();
		for m in module {
			s.push('.');
			s.push_str(m);
		}
		s
	}

	/// A field type of bounded depth. `for_self`: (path, allow recursion)
	fn field_ty(&mut self, depth: usize, self_path: Option<&str>, allow_union: bool) -> FieldTy {
		let c = if depth >= 3 { self.t.below(4) } else { self.t.below(16) };
		let plain = |text: &str, kind: AK| FieldTy { text: text.to_string(), kind, attrs: vec![], contains_union: false, logical: false, nested_union: false, generic_insts: vec![] };
		match c {
			0..=3 => {
				let (p, k) = self.t.pick(PRIMS).clone();
				plain(p, k)
			}
			4 | 5 => {
				// reference to an earlier type
				let cands: Vec<usize> = self.defs.iter().enumerate().filter(|(_, d)| d.plain && !d.has_lifetime && (allow_union || d.kind != AK::Union)).map(|(i, _)| i).collect();
				if cands.is_empty() {
					return plain("i32", AK::Int);
				}
				let i = *self.t.pick(&cands);
				let d = &self.defs[i];
				FieldTy { text: format!("crate::{}", d.path), kind: d.kind.clone(), attrs: vec![], contains_union: d.kind == AK::Union || d.features.contains(&"union-enum"), logical: d.features.contains(&"logical"), nested_union: d.features.contains(&"nested-union"), generic_insts: vec![] }
			}
			6 | 7 => {
				let inner = self.field_ty(depth + 1, self_path, allow_union);
				// Option<union> is a union directly inside a union: separately labelled class
				let nested = inner.kind == AK::Union;
				if nested && !self.t.chance(40) {
					return inner;
				}
				if !inner.attrs.is_empty() && !inner.attrs.iter().all(|a| a.contains("serde_bytes")) {
					return inner;
				}
				FieldTy { text: format!("Option<{}>", inner.text), kind: AK::Union, attrs: inner.attrs.clone(), contains_union: true, logical: inner.logical, nested_union: inner.nested_union || nested, generic_insts: inner.generic_insts }
			}
			8 | 9 => {
				let inner = self.field_ty(depth + 1, self_path, true);
				if !inner.attrs.is_empty() {
					return inner;
				}
				FieldTy { text: format!("Vec<{}>", inner.text), kind: AK::Array, attrs: vec![], contains_union: inner.contains_union, logical: inner.logical, nested_union: inner.nested_union, generic_insts: inner.generic_insts }
			}
			10 => {
				let inner = self.field_ty(depth + 1, self_path, true);
				if !inner.attrs.is_empty() {
					return inner;
				}
				let m = if self.t.bool() { "BTreeMap" } else { "HashMap" };
				FieldTy { text: format!("{m}<String, {}>", inner.text), kind: AK::Map, attrs: vec![], contains_union: inner.contains_union, logical: inner.logical, nested_union: inner.nested_union, generic_insts: inner.generic_insts }
			}
			11 => {
				let inner = self.field_ty(depth + 1, self_path, allow_union);
				if !inner.attrs.is_empty() {
					return inner;
				}
				let w = *self.t.pick(&["Box", "Rc", "Arc"]);
				FieldTy { text: format!("{w}<{}>", inner.text), ..inner }
			}
			12 => {
				// bytes / fixed through serde_bytes
				if self.t.bool() {
					FieldTy { text: "Vec<u8>".into(), kind: AK::Bytes, attrs: vec!["#[serde(with = \"serde_bytes\")]".into()], contains_union: false, logical: false, nested_union: false, generic_insts: vec![] }
				} else {
					let n = *self.t.pick(&[1usize, 4, 12, 16, 33]);
					FieldTy { text: format!("[u8; {n}]"), kind: AK::Named(format!("u8_array_{n}")), attrs: vec!["#[serde(with = \"serde_bytes\")]".into()], contains_union: false, logical: false, nested_union: false, generic_insts: vec![] }
				}
			}
			13 => {
				// recursion
				match self_path {
					Some(_) if depth == 0 => {
						if self.t.bool() {
							FieldTy { text: format!("Option<Box<crate::{}>>", self_path.unwrap()), kind: AK::Union, attrs: vec![], contains_union: true, logical: false, nested_union: false, generic_insts: vec!["<recursive>".into()] }
						} else {
							FieldTy { text: format!("Vec<crate::{}>", self_path.unwrap()), kind: AK::Array, attrs: vec![], contains_union: false, logical: false, nested_union: false, generic_insts: vec!["<recursive>".into()] }
						}
					}
					_ => plain("String", AK::String),
				}
			}
			14 => {
				// generic instantiation
				if self.generic_defs.is_empty() {
					return plain("u32", AK::Long);
				}
				let g = self.t.pick(&self.generic_defs).clone();
				let (p, _) = self.t.pick(PRIMS).clone();
				let arg = if self.t.bool() { p.to_string() } else { format!("Vec<{p}>") };
				FieldTy { text: format!("crate::{g}<{arg}>"), kind: AK::Named(format!("<generic {g}<{arg}>>")), attrs: vec![], contains_union: false, logical: false, nested_union: false, generic_insts: vec![format!("{g}<{arg}>")] }
			}
			_ => {
				// logical-type attributes
				let (text, attr, kind): (&str, &str, AK) = match self.t.below(8) {
					0 => ("String", "#[avro_schema(logical_type = \"Uuid\")]", AK::String),
					1 => ("i32", "#[avro_schema(logical_type = \"Date\")]", AK::Int),
					2 => ("i64", "#[avro_schema(logical_type = \"TimestampMillis\")]", AK::Long),
					3 => ("i64", "#[avro_schema(logical_type = \"TimeMicros\")]", AK::Long),
					4 => ("i32", "#[avro_schema(logical_type = \"TimeMillis\")]", AK::Int),
					5 => ("rust_decimal::Decimal", "#[avro_schema(scale = 2, precision = 20)]", AK::Bytes),
					6 => ("String", "#[avro_schema(logical_type = \"my-custom-type\")]", AK::String),
					_ => ("i64", "#[avro_schema(logical_type = \"timestamp-micros\")]", AK::Long),
				};
				FieldTy { text: text.to_string(), kind, attrs: vec![attr.to_string()], contains_union: false, logical: true, nested_union: false, generic_insts: vec![] }
			}
		}
	}

	fn emit(&mut self, module: &[String], text: String) {
		match self.mods.iter_mut().find(|(m, _)| m == module) {
			Some((_, s)) => s.push_str(&text),
			None => self.mods.push((module.to_vec(), text)),
		}
	}

	fn derive_line() -> &'static str {
		"#[derive(BuildSchema, Serialize, Deserialize, PartialEq, Debug, Clone)]\n"
	}

	fn gen_record(&mut self, idx: usize) {
		let module = self.module();
		let name = format!("R{idx}");
		let path = module.iter().map(|m| format!("{m}::")).collect::<String>() + &name;
		let nfields = 1 + self.t.small(5);
		let mut features: Vec<&'static str> = vec![];
		let mut body = String::new();
		let mut gen_body = String::new();
		let mut twice: Vec<String> = Vec::new();
		for f in 0..nfields {
			let ft = self.field_ty(0, Some(&path), true);
			if ft.contains_union {
				push_unique(&mut features, "contains-union");
			}
			if ft.logical {
				push_unique(&mut features, "logical");
			}
			if ft.nested_union {
				push_unique(&mut features, "nested-union");
			}
			for g in &ft.generic_insts {
				if g == "<recursive>" {
					push_unique(&mut features, "recursive");
				} else {
					twice.push(g.clone());
				}
			}
			let fname = match self.t.below(8) {
				0 => format!("r#type{f}"),
				_ => format!("f{f}"),
			};
			for a in &ft.attrs {
				let _ = writeln!(body, "\t{a}");
			}
			let _ = writeln!(body, "\tpub {fname}: {},", ft.text);
			let _ = writeln!(gen_body, "\t\t\t{fname}: <{} as Gen>::gen(t, d + 1),", ft.text);
		}
		// a generic instantiated twice inside one parent (same generic, different arguments)
		let mut gens: Vec<&String> = twice.iter().collect();
		gens.sort();
		gens.dedup();
		let gen_names: Vec<&str> = gens.iter().map(|g| g.split('<').next().unwrap_or("")).collect();
		if gens.len() >= 2 && gen_names.iter().any(|n| gen_names.iter().filter(|m| m == &n).count() >= 2) {
			push_unique(&mut features, "generic-twice");
		} else if !gens.is_empty() {
			push_unique(&mut features, "generic");
		}
		// namespace / name overrides with the matching serde rename
		let (attr, fullname) = match self.t.below(6) {
			0 => {
				let nsv = *self.t.pick(&["my.ns", "other", ""]);
				let nm = format!("Renamed{idx}");
				(format!("#[avro_schema(namespace = \"{nsv}\", name = {nm})]\n#[serde(rename = \"{nm}\")]\n"), if nsv.is_empty() { nm } else { format!("{nsv}.{nm}") })
			}
			1 => {
				let nsv = *self.t.pick(&["over.ridden", "x"]);
				(format!("#[avro_schema(namespace = \"{nsv}\")]\n"), format!("{nsv}.{name}"))
			}
			_ => (String::new(), format!("{}.{name}", self.ns(&module))),
		};
		let mut text = String::new();
		text.push_str(Self::derive_line());
		text.push_str(&attr);
		let _ = writeln!(text, "pub(crate) struct {name} {{\n{body}}}");
		let _ = writeln!(text, "impl Gen for {name} {{\n\tfn gen(t: &mut Tape, d: usize) -> Self {{\n\t\tlet _ = (&t, d);\n\t\tSelf {{\n{gen_body}\t\t}}\n\t}}\n}}\n");
		self.emit(&module, text);
		self.defs.push(Def { path, kind: AK::Named(fullname), features, plain: true, has_lifetime: false });
	}

	fn gen_unit_enum(&mut self, idx: usize) {
		let module = self.module();
		let name = format!("E{idx}");
		let path = module.iter().map(|m| format!("{m}::")).collect::<String>() + &name;
		let n = 1 + self.t.small(5);
		let mut text = String::new();
		text.push_str(Self::derive_line());
		let _ = writeln!(text, "pub(crate) enum {name} {{");
		let mut arms = String::new();
		for v in 0..n {
			let _ = writeln!(text, "\tV{v},");
			let _ = writeln!(arms, "\t\t\t{v} => Self::V{v},");
		}
		let _ = writeln!(text, "}}");
		let _ = writeln!(text, "impl Gen for {name} {{\n\tfn gen(t: &mut Tape, _d: usize) -> Self {{\n\t\tmatch t.below({n}) {{\n{arms}\t\t\t_ => Self::V0,\n\t\t}}\n\t}}\n}}\n");
		let full = format!("{}.{name}", self.ns(&module));
		self.emit(&module, text);
		self.defs.push(Def { path, kind: AK::Named(full), features: vec![], plain: true, has_lifetime: false });
	}

	fn gen_newtype(&mut self, idx: usize) {
		let module = self.module();
		let name = format!("N{idx}");
		let path = module.iter().map(|m| format!("{m}::")).collect::<String>() + &name;
		let mut text = String::new();
		let mut features: Vec<&'static str> = vec![];
		let kind;
		text.push_str(Self::derive_line());
		match self.t.below(4) {
			0 => {
				// newtype over a byte array: a fixed named after the struct
				let n = *self.t.pick(&[2usize, 4, 16]);
				let _ = writeln!(text, "pub(crate) struct {name}(#[serde(with = \"serde_bytes\")] pub [u8; {n}]);");
				let _ = writeln!(text, "impl Gen for {name} {{\n\tfn gen(t: &mut Tape, d: usize) -> Self {{\n\t\tSelf(<[u8; {n}] as Gen>::gen(t, d))\n\t}}\n}}\n");
				kind = AK::Named(format!("{}.{name}", self.ns(&module)));
			}
			1 | 2 => {
				// newtype with a logical type attribute
				// (a long with timestamp-millis, or a decimal over bytes: the latter's schema node must not
				// leak to plain byte vectors of the same family)
				if self.t.below(3) == 0 {
					let _ = writeln!(text, "pub(crate) struct {name}(#[avro_schema(logical_type = \"TimestampMillis\")] pub i64);");
					let _ = writeln!(text, "impl Gen for {name} {{\n\tfn gen(t: &mut Tape, d: usize) -> Self {{\n\t\tSelf(<i64 as Gen>::gen(t, d))\n\t}}\n}}\n");
					kind = AK::Long;
				} else {
					let _ = writeln!(text, "pub(crate) struct {name}(#[avro_schema(scale = 2, precision = 20)] pub rust_decimal::Decimal);");
					let _ = writeln!(text, "impl Gen for {name} {{\n\tfn gen(t: &mut Tape, d: usize) -> Self {{\n\t\tSelf(<rust_decimal::Decimal as Gen>::gen(t, d))\n\t}}\n}}\n");
					kind = AK::Bytes;
					features.push("newtype-decimal");
				}
				features.push("logical");
			}
			_ => {
				let ft = loop {
					let ft = self.field_ty(1, None, false);
					if ft.attrs.is_empty() && ft.kind != AK::Union {
						break ft;
					}
				};
				let _ = writeln!(text, "pub(crate) struct {name}(pub {});", ft.text);
				let _ = writeln!(text, "impl Gen for {name} {{\n\tfn gen(t: &mut Tape, d: usize) -> Self {{\n\t\tSelf(<{} as Gen>::gen(t, d + 1))\n\t}}\n}}\n", ft.text);
				kind = ft.kind.clone();
				if ft.contains_union {
					features.push("contains-union");
				}
				if ft.logical {
					features.push("logical");
				}
				if !ft.generic_insts.is_empty() {
					features.push("generic");
				}
			}
		}
		// a record that holds a logical-type newtype next to a plain field of the newtype's inner type
		// (the two must get different schema nodes: the annotation belongs to the newtype only)
		let companion = if features.contains(&"logical") && (kind == AK::Long || kind == AK::Bytes) && text.contains("#[avro_schema(") {
			let (plain_attr, plain_ty) = if kind == AK::Bytes { ("\t#[serde(with = \"serde_bytes\")]\n", "Vec<u8>") } else { ("", "i64") };
			let cname = format!("{name}Mix");
			text.push_str(Self::derive_line());
			let _ = writeln!(text, "pub(crate) struct {cname} {{\n\tpub a: {name},\n{plain_attr}\tpub b: {plain_ty},\n\tpub c: Option<{name}>,\n\tpub e: Vec<{name}>,\n}}");
			let _ = writeln!(text, "impl Gen for {cname} {{\n\tfn gen(t: &mut Tape, d: usize) -> Self {{\n\t\tSelf {{ a: <{name} as Gen>::gen(t, d + 1), b: <{plain_ty} as Gen>::gen(t, d + 1), c: <Option<{name}> as Gen>::gen(t, d + 1), e: <Vec<{name}> as Gen>::gen(t, d + 1) }}\n\t}}\n}}\n");
			Some((format!("{path}Mix"), format!("{}.{cname}", self.ns(&module))))
		} else {
			None
		};
		self.emit(&module, text);
		self.defs.push(Def { path, kind, features, plain: true, has_lifetime: false });
		if let Some((cpath, cfull)) = companion {
			self.defs.push(Def { path: cpath, kind: AK::Named(cfull), features: vec!["logical", "contains-union", "newtype-logical-next-to-plain"], plain: true, has_lifetime: false });
		}
	}

	fn gen_union_enum(&mut self, idx: usize) {
		let module = self.module();
		let name = format!("U{idx}");
		let path = module.iter().map(|m| format!("{m}::")).collect::<String>() + &name;
		let n = 2 + self.t.small(4);
		let mut kinds: Vec<AK> = Vec::new();
		let mut text = String::new();
		let mut arms = String::new();
		let mut features: Vec<&'static str> = vec!["union-enum"];
		text.push_str(Self::derive_line());
		let _ = writeln!(text, "pub(crate) enum {name} {{");
		let has_unit = self.t.chance(110);
		let mut nv = 0;
		if has_unit {
			// the unit variant maps to the null branch
			let _ = writeln!(text, "\tNull,");
			let _ = writeln!(arms, "\t\t\t{nv} => Self::Null,");
			nv += 1;
			features.push("unit-variant");
		}
		for v in 0..n {
			// variant payloads: pairwise distinct branch types, never a union
			let mut tries = 0;
			let ft = loop {
				tries += 1;
				let ft = if self.t.chance(60) {
					// byte array variant: a fixed named after enum and variant
					let nn = *self.t.pick(&[4usize, 16]);
					FieldTy { text: format!("[u8; {nn}]"), kind: AK::Named(format!("{}.{name}.A{v}", self.ns(&module))), attrs: vec!["#[serde(with = \"serde_bytes\")]".into()], contains_union: false, logical: false, nested_union: false, generic_insts: vec![] }
				} else {
					self.field_ty(1, None, false)
				};
				let bytes_attr_only = ft.attrs.iter().all(|a| a.contains("serde_bytes"));
				let generic = matches!(&ft.kind, AK::Named(n) if n.starts_with("<generic"));
				if ft.kind != AK::Union && !kinds.contains(&ft.kind) && bytes_attr_only && !generic && !ft.text.starts_with("Box<") && !ft.text.starts_with("Rc<") && !ft.text.starts_with("Arc<") {
					break Some(ft);
				}
				if tries > 12 {
					break None;
				}
			};
			let Some(ft) = ft else { continue };
			// `[u8; N]` through the generic impl is named u8_array_N; as a variant it is renamed
			let ft = if let (true, AK::Named(k)) = (ft.text.starts_with("[u8;"), &ft.kind) {
				if k.starts_with("u8_array_") {
					FieldTy { kind: AK::Named(format!("{}.{name}.A{v}", self.ns(&module))), ..ft }
				} else {
					ft
				}
			} else {
				ft
			};
			if kinds.contains(&ft.kind) {
				continue;
			}
			kinds.push(ft.kind.clone());
			if ft.contains_union {
				push_unique(&mut features, "contains-union");
			}
			// (a newtype over `i64` carrying the timestamp-millis attribute - directly or through further
			// newtypes - is still "a long" for the one-branch-per-type rule, but its branch is named
			// after the logical type)
			let rename = if ft.logical && ft.kind == AK::Long && ft.text.starts_with("crate::") { "TimestampMillis".to_string() } else if ft.logical && ft.kind == AK::Bytes && ft.text.starts_with("crate::") { "Decimal".to_string() } else { ft.kind.branch_name() };
			let _ = writeln!(text, "\t#[serde(rename = \"{rename}\")]");
			let attrs = ft.attrs.join(" ");
			let _ = writeln!(text, "\tA{v}({attrs} {}),", ft.text);
			let _ = writeln!(arms, "\t\t\t{nv} => Self::A{v}(<{} as Gen>::gen(t, d + 1)),", ft.text);
			nv += 1;
		}
		let _ = writeln!(text, "}}");
		let fallback = if has_unit { "Self::Null".to_string() } else { "panic!(\"gen20: empty union enum\")".to_string() };
		let _ = writeln!(text, "impl Gen for {name} {{\n\tfn gen(t: &mut Tape, d: usize) -> Self {{\n\t\tlet _ = d;\n\t\tmatch t.below({nv}) {{\n{arms}\t\t\t_ => {fallback},\n\t\t}}\n\t}}\n}}\n");
		if nv == 0 || (nv == 1 && has_unit) || (!has_unit && kinds.is_empty()) {
			// degenerate: would not be a union enum (all-unit) - drop it
			return;
		}
		if kinds.iter().any(|k| matches!(k, AK::String | AK::Bytes) || matches!(k, AK::Named(_))) && has_unit {
			features.push("unit-variant-beside-string-like");
		}
		self.emit(&module, text);
		self.defs.push(Def { path, kind: AK::Union, features, plain: true, has_lifetime: false });
	}

	fn gen_generic(&mut self, idx: usize) {
		let name = format!("G{idx}");
		let mut text = String::new();
		text.push_str(Self::derive_line());
		// (not `pub`: the derive emits a private `<Name>TypeLookup` helper for generic
		// types, which a fully public generic struct would leak - compile error E0446)
		let _ = writeln!(text, "pub(crate) struct {name}<T> {{\n\tpub a: T,\n\tpub b: Vec<T>,\n\tpub c: i32,\n}}");
		let _ = writeln!(text, "impl<T: Gen> Gen for {name}<T> {{\n\tfn gen(t: &mut Tape, d: usize) -> Self {{\n\t\tSelf {{ a: T::gen(t, d + 1), b: <Vec<T> as Gen>::gen(t, d + 1), c: <i32 as Gen>::gen(t, d) }}\n\t}}\n}}\n");
		self.emit(&[], text);
		self.generic_defs.push(name);
	}

	/// generic struct owning a named sub-schema (a fixed with a logical type), with or
	/// without an explicit namespace, plus a parent that instantiates it twice
	fn gen_generic_owning_named(&mut self, idx: usize) {
		let name = format!("GL{idx}");
		let explicit_ns = self.t.bool();
		let mut text = String::new();
		text.push_str(Self::derive_line());
		if explicit_ns {
			let _ = writeln!(text, "#[avro_schema(namespace = \"gl.ns\")]");
		}
		let _ = writeln!(text, "pub(crate) struct {name}<T> {{\n\tpub a: T,\n\t#[avro_schema(logical_type = \"Duration\")]\n\t#[serde(with = \"serde_bytes\")]\n\tpub d: [u8; 12],\n}}");
		let _ = writeln!(text, "impl<T: Gen> Gen for {name}<T> {{\n\tfn gen(t: &mut Tape, d: usize) -> Self {{\n\t\tSelf {{ a: T::gen(t, d + 1), d: <[u8; 12] as Gen>::gen(t, d) }}\n\t}}\n}}\n");
		let parent = format!("GP{idx}");
		text.push_str(Self::derive_line());
		let _ = writeln!(text, "pub(crate) struct {parent} {{\n\tpub x: {name}<i32>,\n\tpub y: {name}<String>,\n\tpub z: Vec<{name}<i32>>,\n}}");
		let _ = writeln!(text, "impl Gen for {parent} {{\n\tfn gen(t: &mut Tape, d: usize) -> Self {{\n\t\tSelf {{ x: Gen::gen(t, d + 1), y: Gen::gen(t, d + 1), z: Gen::gen(t, d + 1) }}\n\t}}\n}}\n");
		self.emit(&[], text);
		let full = format!("{}.{parent}", self.krate);
		self.defs.push(Def { path: parent, kind: AK::Named(full), features: if explicit_ns { vec!["generic-twice", "logical", "generic-owning-named/explicit-namespace"] } else { vec!["generic-twice", "logical", "generic-owning-named"] }, plain: true, has_lifetime: false });
	}

	/// struct generic over a const only (and optionally a type as well): every instantiation
	/// is a distinct Rust type and must get a distinct fullname; a parent uses two constants
	fn gen_const_generic(&mut self, idx: usize) {
		let name = format!("CG{idx}");
		let with_type = self.t.bool();
		let (n1, n2) = (1 + self.t.below(6), 8 + self.t.below(6));
		let mut text = String::new();
		text.push_str(Self::derive_line());
		if with_type {
			let _ = writeln!(text, "pub(crate) struct {name}<T, const N: usize> {{
	#[serde(with = \"serde_bytes\")]
	pub data: [u8; N],
	pub t: T,
}}");
			let _ = writeln!(text, "impl<T: Gen, const N: usize> Gen for {name}<T, N> {{
	fn gen(t: &mut Tape, d: usize) -> Self {{
		Self {{ data: <[u8; N] as Gen>::gen(t, d), t: T::gen(t, d + 1) }}
	}}
}}
");
		} else {
			let _ = writeln!(text, "pub(crate) struct {name}<const N: usize> {{
	#[serde(with = \"serde_bytes\")]
	pub data: [u8; N],
	pub index: i32,
}}");
			let _ = writeln!(text, "impl<const N: usize> Gen for {name}<N> {{
	fn gen(t: &mut Tape, d: usize) -> Self {{
		Self {{ data: <[u8; N] as Gen>::gen(t, d), index: <i32 as Gen>::gen(t, d) }}
	}}
}}
");
		}
		let inst = |n: usize| if with_type { format!("{name}<i64, {n}>") } else { format!("{name}<{n}>") };
		let parent = format!("CP{idx}");
		text.push_str(Self::derive_line());
		let _ = writeln!(text, "pub(crate) struct {parent} {{
	pub small: {},
	pub large: {},
	pub small_again: Vec<{}>,
}}", inst(n1), inst(n2), inst(n1));
		let _ = writeln!(text, "impl Gen for {parent} {{
	fn gen(t: &mut Tape, d: usize) -> Self {{
		Self {{ small: Gen::gen(t, d + 1), large: Gen::gen(t, d + 1), small_again: Gen::gen(t, d + 1) }}
	}}
}}
");
		self.emit(&[], text);
		let full = format!("{}.{parent}", self.krate);
		self.defs.push(Def { path: parent, kind: AK::Named(full), features: if with_type { vec!["generic-twice", "const-generic/with-type"] } else { vec!["generic-twice", "const-generic"] }, plain: true, has_lifetime: false });
	}

	fn gen_borrowing(&mut self, idx: usize) {
		let name = format!("B{idx}");
		let mut text = String::new();
		let _ = writeln!(text, "#[derive(BuildSchema, Serialize, Deserialize, PartialEq, Debug, Clone)]\npub(crate) struct {name}<'a> {{\n\tpub s: &'a str,\n\tpub n: i64,\n\t#[serde(borrow)]\n\tpub o: Option<&'a str>,\n}}");
		let _ = writeln!(text, "impl Gen for {name}<'static> {{\n\tfn gen(t: &mut Tape, d: usize) -> Self {{\n\t\tSelf {{ s: <&'static str as Gen>::gen(t, d), n: <i64 as Gen>::gen(t, d), o: <Option<&'static str> as Gen>::gen(t, d) }}\n\t}}\n}}\n");
		self.emit(&[], text);
		self.defs.push(Def { path: format!("{name}<'static>"), kind: AK::Named(format!("{}.{name}", self.krate)), features: vec!["borrowed-str"], plain: false, has_lifetime: true });
	}
}

fn push_unique(v: &mut Vec<&'static str>, s: &'static str) {
	if !v.contains(&s) {
		v.push(s);
	}
}

pub fn generate(tape: &[u8], krate: &str, n_types: usize) -> Family {
	let mut t = Tape::new(tape);
	let mut g = G { t: &mut t, defs: Vec::new(), krate: krate.to_string(), mods: Vec::new(), generic_defs: Vec::new() };
	g.gen_generic(0);
	g.gen_generic(1);
	g.gen_generic_owning_named(0);
	if g.t.bool() {
		g.gen_generic_owning_named(1);
	}
	g.gen_const_generic(0);
	g.gen_const_generic(1);
	for idx in 0..n_types {
		match g.t.below(10) {
			0..=3 => g.gen_record(idx),
			4 => g.gen_unit_enum(idx),
			5 => g.gen_newtype(idx),
			6 | 7 => g.gen_union_enum(idx),
			8 => {
				if idx % 7 == 0 {
					g.gen_borrowing(idx)
				} else {
					g.gen_record(idx)
				}
			}
			_ => g.gen_record(idx),
		}
	}
	let mut src = String::new();
	src.push_str("// GENERATED by vgen20 - a family of type definitions for property C20\n#![allow(dead_code, non_camel_case_types, unused_imports, clippy::all)]\nuse serde_avro_derive::BuildSchema;\nuse serde_derive::{Deserialize, Serialize};\nuse std::collections::{BTreeMap, HashMap};\nuse std::rc::Rc;\nuse std::sync::Arc;\nuse vh::gen20rt::{check_type, Gen, Report};\nuse vh::tape::Tape;\n\n");
	// root module items
	let prelude = "\tuse serde_avro_derive::BuildSchema;\n\tuse serde_derive::{Deserialize, Serialize};\n\tuse std::collections::{BTreeMap, HashMap};\n\tuse std::rc::Rc;\n\tuse std::sync::Arc;\n\tuse vh::gen20rt::Gen;\n\tuse vh::tape::Tape;\n";
	let get = |m: &[&str]| -> String { g.mods.iter().find(|(mm, _)| mm.iter().map(|s| s.as_str()).collect::<Vec<_>>() == m).map(|(_, s)| s.clone()).unwrap_or_default() };
	src.push_str(&get(&[]));
	for top in ["m1", "m2"] {
		let _ = writeln!(src, "pub(crate) mod {top} {{\n{prelude}");
		src.push_str(&get(&[top]));
		if top == "m1" {
			for inner in ["inner", "deep"] {
				let _ = writeln!(src, "pub(crate) mod {inner} {{\n{prelude}");
				src.push_str(&get(&[top, inner]));
				src.push_str("}\n");
			}
		}
		src.push_str("}\n");
	}
	src.push_str("\nfn main() {\n\tlet args: Vec<String> = std::env::args().collect();\n\tlet nvalues: usize = args.get(1).and_then(|s| s.parse().ok()).unwrap_or(50);\n\tlet seed: u64 = args.get(2).and_then(|s| s.parse().ok()).unwrap_or(0);\n\tlet out = args.get(3).cloned().unwrap_or_else(|| \"/dev/null\".to_string());\n\tlet mut rep = Report::default();\n");
	for d in &g.defs {
		let feats: Vec<String> = d.features.iter().map(|f| format!("\"{f}\"")).collect();
		let _ = writeln!(src, "\tcheck_type::<crate::{}>(&mut rep, \"{}\", &[{}], nvalues, seed);", d.path, d.path, feats.join(", "));
	}
	src.push_str("\tstd::process::exit(rep.finish(&out));\n}\n");
	Family { source: src, n_types: g.defs.len() }
}
