//! Entropy tape: a byte string read as a sequence of bounded choices.
//!
//! All mappings are monotone (smaller byte => simpler choice) and an exhausted
//! tape yields 0 everywhere, so proptest's stock byte-vector shrinking (drop
//! chunks, lower bytes) is structure-aware through the decoders.

#[derive(Clone)]
pub struct Tape<'a> {
	data: &'a [u8],
	pos: usize,
}

impl<'a> Tape<'a> {
	pub fn new(data: &'a [u8]) -> Self {
		Tape { data, pos: 0 }
	}
	pub fn exhausted(&self) -> bool {
		self.pos >= self.data.len()
	}
	pub fn remaining(&self) -> usize {
		self.data.len().saturating_sub(self.pos)
	}
	pub fn byte(&mut self) -> u8 {
		let b = self.data.get(self.pos).copied().unwrap_or(0);
		self.pos = self.pos.saturating_add(1);
		b
	}
	/// Uniform-ish choice in 0..n (n >= 1), monotone in the tape bytes.
	pub fn below(&mut self, n: usize) -> usize {
		if n <= 1 {
			return 0;
		}
		if n <= 256 {
			(self.byte() as usize * n) >> 8
		} else if n <= 65536 {
			let v = ((self.byte() as usize) << 8) | self.byte() as usize;
			(v * n) >> 16
		} else {
			let v = self.u32() as u64;
			((v * n as u64) >> 32) as usize
		}
	}
	pub fn range(&mut self, lo: usize, hi_incl: usize) -> usize {
		lo + self.below(hi_incl - lo + 1)
	}
	pub fn bool(&mut self) -> bool {
		self.byte() >= 128
	}
	/// true with probability ~ num/256
	pub fn chance(&mut self, num: u32) -> bool {
		(self.byte() as u32) >= 256 - num.min(256)
	}
	pub fn u16(&mut self) -> u16 {
		((self.byte() as u16) << 8) | self.byte() as u16
	}
	pub fn u32(&mut self) -> u32 {
		((self.u16() as u32) << 16) | self.u16() as u32
	}
	pub fn u64(&mut self) -> u64 {
		((self.u32() as u64) << 32) | self.u32() as u64
	}
	pub fn u128(&mut self) -> u128 {
		((self.u64() as u128) << 64) | self.u64() as u128
	}
	pub fn pick<'t, T>(&mut self, items: &'t [T]) -> &'t T {
		&items[self.below(items.len())]
	}
	pub fn pick_str(&mut self, items: &[&'static str]) -> &'static str {
		items[self.below(items.len())]
	}
	pub fn bytes(&mut self, n: usize) -> Vec<u8> {
		(0..n).map(|_| self.byte()).collect()
	}
	/// Small size with geometric-ish bias: mostly small, sometimes up to max.
	pub fn small(&mut self, max: usize) -> usize {
		let b = self.byte() as usize;
		let v = if b < 96 {
			b / 32 // 0..2
		} else if b < 200 {
			(b - 96) / 13 // 0..8
		} else if b < 250 {
			(b - 200) * max.max(1) / 50
		} else {
			max
		};
		v.min(max)
	}
	/// The unread remainder (used for bulk "arbitrary bytes" inputs)
	pub fn rest(&mut self) -> &'a [u8] {
		let r = self.data.get(self.pos..).unwrap_or(&[]);
		self.pos = self.data.len();
		r
	}
}

/// Deterministic xorshift stream for bulk payloads (seeded from the tape).
pub struct XorShift(pub u64);
impl XorShift {
	pub fn new(seed: u64) -> Self {
		XorShift(seed | 1)
	}
	pub fn next(&mut self) -> u64 {
		let mut x = self.0;
		x ^= x << 13;
		x ^= x >> 7;
		x ^= x << 17;
		self.0 = x;
		x
	}
	pub fn fill(&mut self, n: usize) -> Vec<u8> {
		let mut v = Vec::with_capacity(n + 8);
		while v.len() < n {
			v.extend_from_slice(&self.next().to_le_bytes());
		}
		v.truncate(n);
		v
	}
}

/// FNV-1a 64 for hashing decoded cases (distinctness counting)
pub fn fnv64(data: &[u8]) -> u64 {
	let mut h: u64 = 0xcbf29ce484222325;
	for &b in data {
		h ^= b as u64;
		h = h.wrapping_mul(0x100000001b3);
	}
	h
}
