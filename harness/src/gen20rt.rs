//! Runtime support for C20's generated programs: tape-driven value generation
//! for the supported type shapes and the per-type oracle.

use crate::model::*;
use crate::tape::Tape;
use serde_avro_derive::BuildSchema;
use std::collections::{BTreeMap, HashMap};
use std::rc::Rc;
use std::sync::Arc;

pub trait Gen: Sized {
	fn gen(t: &mut Tape, depth: usize) -> Self;
}

macro_rules! gen_int {
	($($ty:ty),*) => {$(
		impl Gen for $ty {
			fn gen(t: &mut Tape, _d: usize) -> Self {
				match t.below(5) {
					0 => 0 as $ty,
					1 => <$ty>::MAX,
					2 => <$ty>::MIN,
					3 => t.byte() as $ty,
					_ => t.u64() as $ty,
				}
			}
		}
	)*};
}
gen_int!(i8, i16, i32, i64, u16, u32);
impl Gen for u64 {
	fn gen(t: &mut Tape, _d: usize) -> Self {
		// within the range of the Avro type it maps to (long)
		match t.below(4) {
			0 => 0,
			1 => i64::MAX as u64,
			2 => t.byte() as u64,
			_ => t.u64() >> 1,
		}
	}
}
impl Gen for bool {
	fn gen(t: &mut Tape, _d: usize) -> Self {
		t.bool()
	}
}
impl Gen for f32 {
	fn gen(t: &mut Tape, _d: usize) -> Self {
		let v = match t.below(5) {
			0 => 0.0,
			1 => -0.0,
			2 => f32::INFINITY,
			3 => f32::MIN_POSITIVE,
			_ => f32::from_bits(t.u32()),
		};
		if v.is_nan() {
			1.5
		} else {
			v
		}
	}
}
impl Gen for f64 {
	fn gen(t: &mut Tape, _d: usize) -> Self {
		let v = match t.below(5) {
			0 => 0.0,
			1 => -0.0,
			2 => f64::NEG_INFINITY,
			3 => f64::MAX,
			_ => f64::from_bits(t.u64()),
		};
		if v.is_nan() {
			-2.25
		} else {
			v
		}
	}
}
impl Gen for String {
	fn gen(t: &mut Tape, _d: usize) -> Self {
		gen_string(t, 40)
	}
}
impl Gen for &'static str {
	fn gen(t: &mut Tape, _d: usize) -> Self {
		Box::leak(gen_string(t, 40).into_boxed_str())
	}
}
impl<T: Gen> Gen for Option<T> {
	fn gen(t: &mut Tape, d: usize) -> Self {
		if d > 6 || t.below(3) == 0 {
			None
		} else {
			Some(T::gen(t, d + 1))
		}
	}
}
impl<T: Gen> Gen for Vec<T> {
	fn gen(t: &mut Tape, d: usize) -> Self {
		let n = if d > 6 { 0 } else { t.small(4) };
		(0..n).map(|_| T::gen(t, d + 1)).collect()
	}
}
impl Gen for Vec<u8> {
	fn gen(t: &mut Tape, _d: usize) -> Self {
		gen_bytes(t, 40)
	}
}
impl<T: Gen> Gen for BTreeMap<String, T> {
	fn gen(t: &mut Tape, d: usize) -> Self {
		let n = if d > 6 { 0 } else { t.small(3) };
		(0..n).map(|i| (format!("k{i}{}", gen_string(t, 4)), T::gen(t, d + 1))).collect()
	}
}
impl<T: Gen> Gen for HashMap<String, T> {
	fn gen(t: &mut Tape, d: usize) -> Self {
		let n = if d > 6 { 0 } else { t.small(3) };
		(0..n).map(|i| (format!("h{i}{}", gen_string(t, 4)), T::gen(t, d + 1))).collect()
	}
}
impl<T: Gen> Gen for Box<T> {
	fn gen(t: &mut Tape, d: usize) -> Self {
		Box::new(T::gen(t, d))
	}
}
impl<T: Gen> Gen for Rc<T> {
	fn gen(t: &mut Tape, d: usize) -> Self {
		Rc::new(T::gen(t, d))
	}
}
impl<T: Gen> Gen for Arc<T> {
	fn gen(t: &mut Tape, d: usize) -> Self {
		Arc::new(T::gen(t, d))
	}
}
impl<const N: usize> Gen for [u8; N] {
	fn gen(t: &mut Tape, _d: usize) -> Self {
		let mut a = [0u8; N];
		for b in a.iter_mut() {
			*b = t.byte();
		}
		a
	}
}
impl Gen for serde_bytes::ByteBuf {
	fn gen(t: &mut Tape, _d: usize) -> Self {
		serde_bytes::ByteBuf::from(gen_bytes(t, 40))
	}
}
impl Gen for rust_decimal::Decimal {
	fn gen(t: &mut Tape, _d: usize) -> Self {
		// integral values so that any schema scale <= 4 can represent them exactly
		rust_decimal::Decimal::new(gen_i64(t) >> 20, 0)
	}
}

#[derive(Default)]
pub struct Report {
	pub types: u64,
	pub nontrivial_types: u64,
	pub values: u64,
	pub violations: Vec<(String, String)>,
	pub labels: BTreeMap<String, u64>,
	pub samples: Vec<serde_json::Value>,
}

impl Report {
	pub fn violation(&mut self, sig: &str, detail: String) {
		let mut d = detail;
		if d.len() > 3000 {
			d.truncate(3000);
		}
		self.violations.push((sig.to_string(), d));
	}
	pub fn finish(&self, out: &str) -> i32 {
		let j = serde_json::json!({
			"types": self.types,
			"nontrivial_types": self.nontrivial_types,
			"values": self.values,
			"labels": self.labels,
			"samples": self.samples,
			"violations": self.violations.iter().map(|(s, d)| serde_json::json!({"sig": s, "detail": d})).collect::<Vec<_>>(),
		});
		let _ = std::fs::write(out, serde_json::to_string_pretty(&j).unwrap());
		for (s, d) in &self.violations {
			println!("C20-VIOLATION signature={s}");
			println!("  detail: {d}");
		}
		println!("family: types={} nontrivial={} values={} violations={}", self.types, self.nontrivial_types, self.values, self.violations.len());
		if self.violations.is_empty() {
			0
		} else {
			1
		}
	}
}

/// Per-type oracle. `features`: labels the generator attaches to the type
/// (union-enum, generic-twice, recursive, logical, ...); `nested_union` marks the
/// separately labelled class where a union ends up directly inside a union.
pub fn check_type<T>(rep: &mut Report, name: &str, features: &[&str], nvalues: usize, seed: u64)
where
	T: BuildSchema + serde::Serialize + serde::Deserialize<'static> + PartialEq + std::fmt::Debug + Gen,
{
	rep.types += 1;
	for f in features {
		*rep.labels.entry(format!("type:{f}")).or_insert(0) += 1;
	}
	let nested_union_class = features.contains(&"nested-union");
	if features.iter().any(|f| ["union-enum", "generic-twice", "recursive", "logical"].contains(f)) {
		rep.nontrivial_types += 1;
	}
	let r = std::panic::catch_unwind(|| T::schema());
	let schema = match r {
		Ok(Ok(s)) => s,
		Ok(Err(e)) => {
			rep.violation(if nested_union_class { "C20/schema-build-failed/nested-union" } else { "C20/schema-build-failed" }, format!("{name}: {e}"));
			return;
		}
		Err(_) => {
			rep.violation("C20/schema-build-panicked", name.to_string());
			return;
		}
	};
	let json = schema.json().to_string();
	// deterministic
	match T::schema() {
		Ok(s2) if s2.json() == json && s2.rabin_fingerprint() == schema.rabin_fingerprint() => {}
		_ => rep.violation("C20/schema-not-deterministic", format!("{name}: two calls of schema() differ; first {json}")),
	}
	// re-parses to the same fingerprint
	match json.parse::<serde_avro_fast::Schema>() {
		Ok(s2) => {
			if s2.rabin_fingerprint() != schema.rabin_fingerprint() {
				rep.violation("C20/schema-json-reparses-differently", format!("{name}: {json}"));
			}
		}
		Err(e) => rep.violation("C20/schema-json-does-not-reparse", format!("{name}: {json}: {e}")),
	}
	// valid Avro schema, one definition per fullname (model reader + validity rules)
	let model = match parse_json_schema(&json) {
		Ok(m) => m,
		Err(e) => {
			rep.violation("C20/schema-invalid-per-spec-reader", format!("{name}: {json}: {e}"));
			return;
		}
	};
	if let Err(e) = validate(&model) {
		let sig = if e.contains("union directly inside union") { "C20/schema-invalid/union-inside-union" } else { "C20/schema-invalid" };
		rep.violation(sig, format!("{name}: {json}: {e}"));
		if !e.contains("union directly inside union") {
			return;
		}
	}
	// the node graph itself must have pairwise distinct fullnames (not only the JSON)
	let sm = T::schema_mut();
	let mut names: Vec<String> = sm.nodes().iter().filter_map(|n| n.type_.name().map(|n| n.fully_qualified_name().to_string())).collect();
	names.sort();
	let before = names.len();
	names.dedup();
	if names.len() != before {
		rep.violation("C20/duplicate-fullname-in-node-graph", format!("{name}: {json}"));
	}
	let env = Env::new(&model);
	if rep.samples.len() < 6 && !features.is_empty() {
		rep.samples.push(serde_json::json!({"type": name, "features": features, "derived_schema": crate::props::common::trunc(&json, 600)}));
	}
	let mut cfg = serde_avro_fast::ser::SerializerConfig::new(&schema);
	for i in 0..nvalues {
		let mut tape_bytes = crate::tape::XorShift::new(seed ^ (i as u64).wrapping_mul(0x9E3779B97F4A7C15) ^ crate::tape::fnv64(name.as_bytes())).fill(if i == 0 { 0 } else { 16 + (i * 7) % 300 });
		if i == 1 {
			tape_bytes = vec![0xff; 200];
		}
		let mut t = Tape::new(&tape_bytes);
		let v = T::gen(&mut t, 0);
		rep.values += 1;
		let bytes = match serde_avro_fast::to_datum_vec(&v, &mut cfg) {
			Ok(b) => b,
			Err(e) => {
				rep.violation(if nested_union_class { "C20/value-does-not-serialize/nested-union" } else { "C20/value-does-not-serialize" }, format!("{name}: value {v:?} under derived schema {json}: {e}"));
				return;
			}
		};
		match decode_strict(&env, &model, &bytes) {
			Ok((_, n)) if n == bytes.len() => {}
			other => {
				rep.violation("C20/bytes-not-a-valid-encoding-under-derived-schema", format!("{name}: value {v:?} schema {json} bytes {}: {:?}", crate::props::common::hex(&bytes), other.map(|x| x.1)));
				return;
			}
		}
		let leaked: &'static [u8] = Box::leak(bytes.clone().into_boxed_slice());
		match serde_avro_fast::from_datum_slice::<T>(leaked, &schema) {
			Ok(v2) => {
				if v2 != v {
					rep.violation("C20/round-trip-differs", format!("{name}: {v:?} -> {} -> {v2:?} (schema {json})", crate::props::common::hex(&bytes)));
					return;
				}
				match serde_avro_fast::to_datum_vec(&v2, &mut cfg) {
					Ok(b2) if b2 == bytes => {}
					// (HashMap iteration order may differ between two equal maps)
					Ok(b2) if matches!((decode_strict(&env, &model, &b2), decode_strict(&env, &model, &bytes)), (Ok((a, _)), Ok((b, _))) if a.same(&b)) => {}
					other => {
						rep.violation("C20/re-serialization-differs", format!("{name}: {v:?}: {:?}", other.map(|b| crate::props::common::hex(&b)).map_err(|e| e.to_string())));
						return;
					}
				}
			}
			Err(e) => {
				rep.violation("C20/value-does-not-deserialize", format!("{name}: value {v:?} bytes {} schema {json}: {e}", crate::props::common::hex(&bytes)));
				return;
			}
		}
		// same through a container file for a subset
		if i % 16 == 3 {
			let file = serde_avro_fast::object_container_file_encoding::write_all(&schema, serde_avro_fast::object_container_file_encoding::Compression::Null, Vec::new(), [&v, &v].into_iter());
			match file {
				Ok(f) => {
					let leaked: &'static [u8] = Box::leak(f.into_boxed_slice());
					match serde_avro_fast::object_container_file_encoding::Reader::from_slice(leaked) {
						Ok(mut r) => {
							let got: Result<Vec<T>, _> = r.deserialize_borrowed::<T>().collect();
							match got {
								Ok(g) if g.len() == 2 && g[0] == v && g[1] == v => {}
								other => rep.violation("C20/container-round-trip-differs", format!("{name}: {v:?}: {other:?}")),
							}
						}
						Err(e) => rep.violation("C20/container-reader-init-failed", format!("{name}: {e}")),
					}
				}
				Err(e) => rep.violation("C20/container-write-failed", format!("{name}: {e}")),
			}
		}
	}
}
