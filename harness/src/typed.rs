//! Typed Rust families for C01: ordinary Rust data types (structs, enums-as-unions,
//! Option, maps, sequences, borrowed `&str`/`&[u8]`) paired with Avro schemas whose
//! *spelling* (field order, union branch order, where null stands) is drawn from the
//! tape. Oracle per case:
//!   1. `to_datum_vec(&v, S)` is Ok and the bytes decode under the reference decoder
//!      (schema read by the model's own JSON reader), consuming everything;
//!   2. `from_datum_slice::<T>` of those bytes == v (floats bit-exact);
//!   3. `from_datum_reader::<T>` through a tape-chosen chunking == v, consuming exactly
//!      the bytes (owned families);
//!   4. the same value re-encoded by the reference encoder in a tape-chosen *layout*
//!      (several blocks, negative counts) also deserialises to v;
//!   5. borrowed `&str`/`&[u8]` point inside the input slice.

use crate::driver::Ctx;
use crate::io::ChunkedReader;
use crate::model::*;
use crate::props::common::{gen_partition, hex, trunc};
use crate::tape::Tape;
use serde::de::DeserializeOwned;
use serde::{Deserialize, Serialize};
use serde_avro_fast::ser::SerializerConfig;
use serde_bytes::ByteBuf;
use std::borrow::Cow;
use std::collections::{BTreeMap, HashMap};
use std::fmt::Debug;

// ---------------------------------------------------------------------------------------
// bit-exact floats

#[derive(Clone, Copy, Debug, Serialize, Deserialize)]
#[serde(transparent)]
pub struct F32(pub f32);
impl PartialEq for F32 {
	fn eq(&self, o: &Self) -> bool {
		self.0.to_bits() == o.0.to_bits()
	}
}
#[derive(Clone, Copy, Debug, Serialize, Deserialize)]
#[serde(transparent)]
pub struct F64(pub f64);
impl PartialEq for F64 {
	fn eq(&self, o: &Self) -> bool {
		self.0.to_bits() == o.0.to_bits()
	}
}

fn g_f32(t: &mut Tape) -> F32 {
	const S: &[u32] = &[0, 0x8000_0000, 0x3f80_0000, 0x7f80_0000, 0xff80_0000, 0x7fc0_0000, 0x7fa0_0001, 0xffc0_1234, 1, 0x7f7f_ffff];
	F32(f32::from_bits(if t.chance(90) { *t.pick(S) } else { t.u32() }))
}
fn g_f64(t: &mut Tape) -> F64 {
	const S: &[u64] = &[0, 0x8000_0000_0000_0000, 0x3ff0_0000_0000_0000, 0x7ff0_0000_0000_0000, 0xfff0_0000_0000_0000, 0x7ff8_0000_0000_0000, 0x7ff4_0000_0000_0001, 0xfff8_0000_dead_beef, 1, 0x7fef_ffff_ffff_ffff];
	F64(f64::from_bits(if t.chance(90) { *t.pick(S) } else { t.u64() }))
}
fn g_str(t: &mut Tape) -> String {
	gen_string(t, 300)
}
fn g_key(t: &mut Tape) -> String {
	gen_string(t, 24)
}
fn g_vec<T>(t: &mut Tape, max: usize, mut f: impl FnMut(&mut Tape) -> T) -> Vec<T> {
	let n = t.small(max);
	(0..n).map(|_| f(t)).collect()
}
fn g_map<T>(t: &mut Tape, max: usize, mut f: impl FnMut(&mut Tape) -> T) -> BTreeMap<String, T> {
	let n = t.small(max);
	(0..n).map(|_| (g_key(t), f(t))).collect()
}
fn g_opt<T>(t: &mut Tape, f: impl FnOnce(&mut Tape) -> T) -> Option<T> {
	if t.chance(96) {
		None
	} else {
		Some(f(t))
	}
}

// ---------------------------------------------------------------------------------------
// schema text with tape-chosen spelling

/// Named types are written in full where they first occur in the text, by name afterwards.
#[derive(Default)]
pub struct Defs {
	seen: Vec<&'static str>,
}
impl Defs {
	fn named(&mut self, fullname: &'static str, def: impl FnOnce(&mut Defs) -> String) -> String {
		if self.seen.contains(&fullname) {
			format!("\"{fullname}\"")
		} else {
			self.seen.push(fullname);
			def(self)
		}
	}
}
type FieldFn = Box<dyn Fn(&mut Tape, &mut Defs) -> String>;

fn shuffle<T>(t: &mut Tape, v: &mut Vec<T>) {
	if t.chance(128) {
		for i in (1..v.len()).rev() {
			let j = t.below(i + 1);
			v.swap(i, j);
		}
	}
}
fn record(t: &mut Tape, d: &mut Defs, fullname: &'static str, fields: Vec<(&'static str, FieldFn)>) -> String {
	// the name is registered before the fields are spelled so that recursive references work
	if d.seen.contains(&fullname) {
		return format!("\"{fullname}\"");
	}
	d.seen.push(fullname);
	let mut fields = fields;
	shuffle(t, &mut fields);
	let fs: Vec<String> = fields.iter().map(|(n, f)| format!("{{\"name\":\"{n}\",\"type\":{}}}", f(t, d))).collect();
	format!("{{\"type\":\"record\",\"name\":\"{fullname}\",\"fields\":[{}]}}", fs.join(","))
}
fn union(t: &mut Tape, d: &mut Defs, branches: Vec<FieldFn>) -> String {
	let mut branches = branches;
	shuffle(t, &mut branches);
	let bs: Vec<String> = branches.iter().map(|f| f(t, d)).collect();
	format!("[{}]", bs.join(","))
}
fn prim(word: &'static str) -> FieldFn {
	Box::new(move |_, _| format!("\"{word}\""))
}
fn lit(text: &'static str) -> FieldFn {
	Box::new(move |_, _| text.to_string())
}
fn nullable(inner: FieldFn) -> FieldFn {
	Box::new(move |t, d| {
		let null_first = !t.chance(110);
		let i = inner(t, d);
		if null_first {
			format!("[\"null\",{i}]")
		} else {
			format!("[{i},\"null\"]")
		}
	})
}
fn array(inner: FieldFn) -> FieldFn {
	Box::new(move |t, d| format!("{{\"type\":\"array\",\"items\":{}}}", inner(t, d)))
}
fn map(inner: FieldFn) -> FieldFn {
	Box::new(move |t, d| format!("{{\"type\":\"map\",\"values\":{}}}", inner(t, d)))
}

// ---------------------------------------------------------------------------------------
// the families

pub trait Fam: Serialize + PartialEq + Debug + Sized {
	const NAME: &'static str;
	fn schema(t: &mut Tape, d: &mut Defs) -> String;
	fn gen(t: &mut Tape) -> Self;
}

// A: all primitives and integer widths
#[derive(Serialize, Deserialize, Debug, PartialEq, Clone)]
pub struct Prims {
	b: bool,
	i: i32,
	l: i64,
	f: F32,
	d: F64,
	s: String,
	#[serde(with = "serde_bytes")]
	y: Vec<u8>,
	n: (),
	w8: u8,
	w16: u16,
	w32: u32,
	w64: u64,
	s8: i8,
	s16: i16,
	c: char,
}
impl Fam for Prims {
	const NAME: &'static str = "prims";
	fn schema(t: &mut Tape, d: &mut Defs) -> String {
		record(
			t,
			d,
			"Prims",
			vec![
				("b", prim("boolean")),
				("i", prim("int")),
				("l", prim("long")),
				("f", prim("float")),
				("d", prim("double")),
				("s", prim("string")),
				("y", prim("bytes")),
				("n", prim("null")),
				("w8", prim("int")),
				("w16", prim("int")),
				("w32", prim("long")),
				("w64", prim("long")),
				("s8", prim("int")),
				("s16", prim("int")),
				("c", prim("string")),
			],
		)
	}
	fn gen(t: &mut Tape) -> Self {
		Prims {
			b: t.bool(),
			i: gen_i32(t),
			l: gen_i64(t),
			f: g_f32(t),
			d: g_f64(t),
			s: g_str(t),
			y: gen_bytes(t, 300),
			n: (),
			w8: t.byte(),
			w16: t.u16(),
			w32: if t.chance(64) { u32::MAX } else { t.u32() },
			w64: (gen_i64(t) as u64) & (i64::MAX as u64),
			s8: t.byte() as i8,
			s16: t.u16() as i16,
			c: char::from_u32(t.u32() % 0x11_0000).unwrap_or('x'),
		}
	}
}

#[derive(Serialize, Deserialize, Debug, PartialEq, Clone)]
pub struct Inner {
	x: i32,
	y: String,
}
fn inner_schema() -> FieldFn {
	Box::new(|t, d| record(t, d, "tns.Inner", vec![("x", prim("int")), ("y", prim("string"))]))
}
fn g_inner(t: &mut Tape) -> Inner {
	Inner { x: gen_i32(t), y: g_str(t) }
}

// B: Option in every position, null first or last
#[derive(Serialize, Deserialize, Debug, PartialEq, Clone)]
pub struct Opts {
	a: Option<i32>,
	b: Option<String>,
	c: Option<Vec<i64>>,
	d: Option<Inner>,
	e: Option<F64>,
	f: Option<BTreeMap<String, Option<bool>>>,
	g: Vec<Option<Inner>>,
	h: Option<Box<Opts>>,
}
impl Fam for Opts {
	const NAME: &'static str = "options";
	fn schema(t: &mut Tape, d: &mut Defs) -> String {
		record(
			t,
			d,
			"Opts",
			vec![
				("a", nullable(prim("int"))),
				("b", nullable(prim("string"))),
				("c", nullable(array(prim("long")))),
				("d", nullable(inner_schema())),
				("e", nullable(prim("double"))),
				("f", nullable(map(nullable(prim("boolean"))))),
				("g", array(nullable(inner_schema()))),
				("h", nullable(lit("\"Opts\""))),
			],
		)
	}
	fn gen(t: &mut Tape) -> Self {
		fn go(t: &mut Tape, depth: usize) -> Opts {
			Opts {
				a: g_opt(t, gen_i32),
				b: g_opt(t, g_str),
				c: g_opt(t, |t| g_vec(t, 6, gen_i64)),
				d: g_opt(t, g_inner),
				e: g_opt(t, g_f64),
				f: g_opt(t, |t| g_map(t, 4, |t| g_opt(t, |t| t.bool()))),
				g: g_vec(t, 4, |t| g_opt(t, g_inner)),
				h: if depth < 3 && t.chance(80) { Some(Box::new(go(t, depth + 1))) } else { None },
			}
		}
		go(t, 0)
	}
}

// C: nested collections, hash maps, records inside collections
#[derive(Serialize, Deserialize, Debug, PartialEq, Clone)]
pub struct Colls {
	v: Vec<Vec<String>>,
	m: HashMap<String, i64>,
	bm: BTreeMap<String, Vec<Option<F64>>>,
	recs: Vec<Inner>,
	mr: BTreeMap<String, Inner>,
	bytes: Vec<ByteBuf>,
	nested: BTreeMap<String, BTreeMap<String, Vec<i32>>>,
}
impl Fam for Colls {
	const NAME: &'static str = "collections";
	fn schema(t: &mut Tape, d: &mut Defs) -> String {
		record(
			t,
			d,
			"c.Colls",
			vec![
				("v", array(array(prim("string")))),
				("m", map(prim("long"))),
				("bm", map(array(nullable(prim("double"))))),
				("recs", array(inner_schema())),
				("mr", map(inner_schema())),
				("bytes", array(prim("bytes"))),
				("nested", map(map(array(prim("int"))))),
			],
		)
	}
	fn gen(t: &mut Tape) -> Self {
		Colls {
			v: g_vec(t, 5, |t| g_vec(t, 5, g_str)),
			m: g_map(t, 6, gen_i64).into_iter().collect(),
			bm: g_map(t, 4, |t| g_vec(t, 4, |t| g_opt(t, g_f64))),
			recs: g_vec(t, 5, g_inner),
			mr: g_map(t, 4, g_inner),
			bytes: g_vec(t, 4, |t| ByteBuf::from(gen_bytes(t, 100))),
			nested: g_map(t, 3, |t| g_map(t, 3, |t| g_vec(t, 4, gen_i32))),
		}
	}
}

// D: enums as unions (variant name = branch name), unit-only enum as Avro enum
#[derive(Serialize, Deserialize, Debug, PartialEq, Clone, Copy)]
pub enum Suit {
	Spades,
	Hearts,
	Diamonds,
	Clubs,
}
fn suit_schema() -> FieldFn {
	Box::new(|_, d| d.named("tns.Suit", |_| r#"{"type":"enum","name":"tns.Suit","symbols":["Spades","Hearts","Diamonds","Clubs"]}"#.to_string()))
}
fn g_suit(t: &mut Tape) -> Suit {
	*t.pick(&[Suit::Spades, Suit::Hearts, Suit::Diamonds, Suit::Clubs])
}
#[derive(Serialize, Deserialize, Debug, PartialEq, Clone)]
pub struct RecB {
	k: i64,
	tags: Vec<String>,
}
#[derive(Serialize, Deserialize, Debug, PartialEq, Clone)]
pub enum U {
	Null,
	Boolean(bool),
	Int(i32),
	Long(i64),
	Float(F32),
	Double(F64),
	String(String),
	Bytes(ByteBuf),
	Array(Vec<i32>),
	Map(BTreeMap<String, String>),
	RecA {
		x: i32,
		y: Option<String>,
	},
	#[serde(rename = "tns.RecB")]
	RecB(RecB),
	#[serde(rename = "tns.Suit")]
	Suit(Suit),
	Fx4(ByteBuf),
}
const U_BRANCHES: usize = 14;
fn u_branch_schema(i: usize) -> FieldFn {
	match i {
		0 => prim("null"),
		1 => prim("boolean"),
		2 => prim("int"),
		3 => prim("long"),
		4 => prim("float"),
		5 => prim("double"),
		6 => prim("string"),
		7 => prim("bytes"),
		8 => array(prim("int")),
		9 => map(prim("string")),
		10 => Box::new(|t, d| record(t, d, "RecA", vec![("x", prim("int")), ("y", nullable(prim("string")))])),
		11 => Box::new(|t, d| record(t, d, "tns.RecB", vec![("k", prim("long")), ("tags", array(prim("string")))])),
		12 => suit_schema(),
		_ => Box::new(|_, d| d.named("Fx4", |_| r#"{"type":"fixed","name":"Fx4","size":4}"#.to_string())),
	}
}
fn g_u(t: &mut Tape, present: &[usize]) -> U {
	match *t.pick(present) {
		0 => U::Null,
		1 => U::Boolean(t.bool()),
		2 => U::Int(gen_i32(t)),
		3 => U::Long(gen_i64(t)),
		4 => U::Float(g_f32(t)),
		5 => U::Double(g_f64(t)),
		6 => U::String(g_str(t)),
		7 => U::Bytes(ByteBuf::from(gen_bytes(t, 100))),
		8 => U::Array(g_vec(t, 5, gen_i32)),
		9 => U::Map(g_map(t, 4, g_str)),
		10 => U::RecA { x: gen_i32(t), y: g_opt(t, g_str) },
		11 => U::RecB(RecB { k: gen_i64(t), tags: g_vec(t, 4, g_str) }),
		12 => U::Suit(g_suit(t)),
		_ => U::Fx4(ByteBuf::from(t.bytes(4))),
	}
}
/// `{ first: Suit, us: [U], by_key: {string: U}?, last: U }` - the union is spelled once (it owns
/// named types) as the item type of `us`; `last` repeats the same branch set with named types by reference.
#[derive(Serialize, Deserialize, Debug, PartialEq, Clone)]
pub struct Unions {
	first: Suit,
	us: Vec<U>,
	last: U,
	suits: BTreeMap<String, Suit>,
}
pub struct UnionsCase {
	present: Vec<usize>,
}
impl UnionsCase {
	fn draw(t: &mut Tape) -> Self {
		let mut present: Vec<usize> = (0..U_BRANCHES).filter(|_| t.chance(140)).collect();
		if present.is_empty() {
			present.push(t.below(U_BRANCHES));
		}
		UnionsCase { present }
	}
	fn schema(&self, t: &mut Tape, d: &mut Defs) -> String {
		let p1 = self.present.clone();
		let p2 = self.present.clone();
		record(
			t,
			d,
			"Unions",
			vec![
				("first", suit_schema()),
				("us", array(Box::new(move |t, d| union(t, d, p1.iter().map(|i| u_branch_schema(*i)).collect())))),
				("last", Box::new(move |t, d| union(t, d, p2.iter().map(|i| u_branch_schema(*i)).collect()))),
				("suits", map(suit_schema())),
			],
		)
	}
	fn gen(&self, t: &mut Tape) -> Unions {
		Unions { first: g_suit(t), us: g_vec(t, 8, |t| g_u(t, &self.present)), last: g_u(t, &self.present), suits: g_map(t, 4, g_suit) }
	}
}

// E: recursive types
#[derive(Serialize, Deserialize, Debug, PartialEq, Clone)]
pub struct List {
	v: i64,
	next: Option<Box<List>>,
}
#[derive(Serialize, Deserialize, Debug, PartialEq, Clone)]
pub struct Tree {
	label: String,
	kids: Vec<Tree>,
	by_name: BTreeMap<String, Tree>,
	list: Option<List>,
}
impl Fam for Tree {
	const NAME: &'static str = "recursive";
	fn schema(t: &mut Tape, d: &mut Defs) -> String {
		record(
			t,
			d,
			"r.Tree",
			vec![
				("label", prim("string")),
				("kids", array(lit("\"r.Tree\""))),
				("by_name", map(lit("\"r.Tree\""))),
				("list", nullable(Box::new(|t, d| record(t, d, "r.List", vec![("v", prim("long")), ("next", nullable(lit("\"r.List\"")))])))),
			],
		)
	}
	fn gen(t: &mut Tape) -> Self {
		fn list(t: &mut Tape) -> List {
			let n = t.small(12);
			let mut l = List { v: gen_i64(t), next: None };
			for _ in 0..n {
				l = List { v: gen_i64(t), next: Some(Box::new(l)) };
			}
			l
		}
		fn go(t: &mut Tape, depth: usize) -> Tree {
			let (nk, nm) = if depth >= 3 { (0, 0) } else { (t.small(3), t.small(2)) };
			Tree { label: g_str(t), kids: (0..nk).map(|_| go(t, depth + 1)).collect(), by_name: (0..nm).map(|_| (g_key(t), go(t, depth + 1))).collect(), list: g_opt(t, list) }
		}
		go(t, 0)
	}
}

// F: logical types through ordinary Rust types
#[derive(Serialize, Deserialize, Debug, PartialEq, Clone)]
pub struct Logical {
	dur: (u32, u32, u32),
	dec_b: rust_decimal::Decimal,
	dec_f: rust_decimal::Decimal,
	dec_opt: Option<rust_decimal::Decimal>,
	date: i32,
	tms: i64,
	tus: i64,
	uuid: String,
	id: Id,
	fx: ByteBuf,
}
#[derive(Serialize, Deserialize, Debug, PartialEq, Clone)]
pub struct Id(u64);
impl Fam for Logical {
	const NAME: &'static str = "logical";
	fn schema(t: &mut Tape, d: &mut Defs) -> String {
		record(
			t,
			d,
			"Logical",
			vec![
				("dur", lit(r#"{"type":"fixed","name":"Dur","size":12,"logicalType":"duration"}"#)),
				("dec_b", lit(r#"{"type":"bytes","logicalType":"decimal","precision":24,"scale":3}"#)),
				("dec_f", lit(r#"{"type":"fixed","name":"DecF","size":12,"logicalType":"decimal","precision":24,"scale":5}"#)),
				("dec_opt", nullable(lit(r#"{"type":"bytes","logicalType":"decimal","precision":10}"#))),
				("date", lit(r#"{"type":"int","logicalType":"date"}"#)),
				("tms", lit(r#"{"type":"long","logicalType":"timestamp-millis"}"#)),
				("tus", lit(r#"{"type":"long","logicalType":"time-micros"}"#)),
				("uuid", lit(r#"{"type":"string","logicalType":"uuid"}"#)),
				("id", prim("long")),
				("fx", lit(r#"{"type":"fixed","name":"Fx7","size":7}"#)),
			],
		)
	}
	fn gen(t: &mut Tape) -> Self {
		fn dec(t: &mut Tape, scale: u32) -> rust_decimal::Decimal {
			// at most `scale` fractional digits (more would be a documented lossy rescale)
			let s = t.below(scale as usize + 1) as u32;
			let m = match t.below(3) {
				0 => (t.byte() as i8) as i64,
				1 => t.u32() as i32 as i64,
				_ => (t.u64() as i64) / 4,
			};
			rust_decimal::Decimal::new(m, s)
		}
		Logical {
			dur: (t.u32(), t.u32(), if t.bool() { u32::MAX } else { t.u32() }),
			dec_b: dec(t, 3),
			dec_f: dec(t, 5),
			dec_opt: g_opt(t, |t| dec(t, 0)),
			date: gen_i32(t),
			tms: gen_i64(t),
			tus: gen_i64(t),
			uuid: format!("{:08x}-{:04x}-{:04x}-{:04x}-{:012x}", t.u32(), t.u16(), t.u16(), t.u16(), t.u64() & 0xffff_ffff_ffff),
			id: Id((gen_i64(t) as u64) & (i64::MAX as u64)),
			fx: ByteBuf::from(t.bytes(7)),
		}
	}
}

// G: borrowed targets (slice input only)
#[derive(Serialize, Deserialize, Debug, PartialEq, Clone)]
pub struct Borrowed<'a> {
	s: &'a str,
	#[serde(with = "serde_bytes")]
	b: &'a [u8],
	#[serde(borrow)]
	c: Cow<'a, str>,
	#[serde(borrow)]
	v: Vec<&'a str>,
	#[serde(borrow)]
	o: Option<&'a str>,
	#[serde(borrow)]
	m: BTreeMap<&'a str, &'a str>,
	n: i32,
}
#[derive(Debug, Clone)]
pub struct BorrowedOwned {
	s: String,
	b: Vec<u8>,
	c: String,
	v: Vec<String>,
	o: Option<String>,
	m: BTreeMap<String, String>,
	n: i32,
}
fn borrowed_schema(t: &mut Tape, d: &mut Defs) -> String {
	record(
		t,
		d,
		"Borrowed",
		vec![("s", prim("string")), ("b", prim("bytes")), ("c", prim("string")), ("v", array(prim("string"))), ("o", nullable(prim("string"))), ("m", map(prim("string"))), ("n", prim("int"))],
	)
}

// ---------------------------------------------------------------------------------------
// runners

struct Prepared {
	json: String,
	cs: serde_avro_fast::Schema,
	ms: MSchema,
}
fn prepare(json: String, ctx: &mut Ctx) -> Option<Prepared> {
	let cs: serde_avro_fast::Schema = match json.parse() {
		Ok(s) => s,
		Err(e) => {
			ctx.violation("C01/typed/valid-schema-rejected", format!("schema {json}: {e}"));
			return None;
		}
	};
	let ms = match parse_json_schema(&json) {
		Ok(m) => m,
		Err(e) => panic!("harness bug: typed family schema not readable by the model: {e} in {json}"),
	};
	Some(Prepared { json, cs, ms })
}

/// serialise; reference-decode; returns the bytes and a second encoding of the same value in a tape-chosen layout
fn ser_and_relayout<T: Serialize + Debug>(fam: &str, v: &T, p: &Prepared, t: &mut Tape, ctx: &mut Ctx) -> Option<(Vec<u8>, Vec<u8>)> {
	let mut sc = SerializerConfig::new(&p.cs);
	let bytes = match serde_avro_fast::to_datum_vec(v, &mut sc) {
		Ok(b) => b,
		Err(e) => {
			ctx.violation(format!("C01/typed/serialize-failed/{fam}"), format!("schema {} value {:?}: {e}", p.json, v));
			return None;
		}
	};
	let env = Env::new(&p.ms);
	let mv = match decode_strict(&env, &p.ms, &bytes) {
		Ok((mv, n)) if n == bytes.len() => mv,
		Ok((_, n)) => {
			ctx.violation(format!("C01/typed/bytes-not-a-valid-encoding/{fam}"), format!("schema {} value {:?} -> bytes {}: reference decoder consumed {n} of {}", p.json, v, hex(&bytes), bytes.len()));
			return None;
		}
		Err(e) => {
			ctx.violation(format!("C01/typed/bytes-not-a-valid-encoding/{fam}"), format!("schema {} value {:?} -> bytes {}: reference decoder: {e}", p.json, v, hex(&bytes)));
			return None;
		}
	};
	let mut alt = Vec::new();
	let mut layout = Layout::Tape(t);
	let mut enc = Encoder::new(&env, &mut layout);
	enc.encode(&p.ms, &mv, &mut alt).unwrap_or_else(|e| panic!("harness bug: reference encoder failed on a decoded value: {e}"));
	if enc.stats.multi_block + enc.stats.negative_blocks > 0 {
		ctx.label("typed:relayout-multi-or-negative-blocks");
	}
	Some((bytes, alt))
}

fn check_owned<T: Serialize + DeserializeOwned + PartialEq + Debug>(fam: &str, v: &T, p: &Prepared, t: &mut Tape, ctx: &mut Ctx) {
	let Some((bytes, alt)) = ser_and_relayout(fam, v, p, t, ctx) else { return };
	let (sizes, tail) = gen_partition(t, bytes.len());
	for (which, data) in [("crate-bytes", &bytes), ("reference-layout", &alt)] {
		match serde_avro_fast::from_datum_slice::<T>(data, &p.cs) {
			Ok(back) => {
				if &back != v {
					ctx.violation(format!("C01/typed/round-trip-mismatch/slice/{fam}"), format!("schema {} value {:?} -> {which} {} -> {:?}", p.json, v, hex(data), back));
				}
			}
			Err(e) => ctx.violation(format!("C01/typed/deserialize-failed/slice/{fam}"), format!("schema {} value {:?} -> {which} {}: {e}", p.json, v, hex(data))),
		}
		let mut rd = ChunkedReader::new(data, sizes.clone(), tail);
		match serde_avro_fast::from_datum_reader::<_, T>(&mut rd, &p.cs) {
			Ok(back) => {
				if &back != v {
					ctx.violation(format!("C01/typed/round-trip-mismatch/reader/{fam}"), format!("schema {} value {:?} -> {which} {} -> {:?} (chunks {:?}/{tail})", p.json, v, hex(data), back, sizes));
				}
				if rd.consumed() != data.len() {
					ctx.violation(format!("C01/typed/decoder-consumed-mismatch/reader/{fam}"), format!("schema {} {which} {}: consumed {} of {}", p.json, hex(data), rd.consumed(), data.len()));
				}
			}
			Err(e) => ctx.violation(format!("C01/typed/deserialize-failed/reader/{fam}"), format!("schema {} value {:?} -> {which} {}: {e} (chunks {:?}/{tail})", p.json, v, hex(data), sizes)),
		}
		if rd.over_consumed {
			ctx.violation("C01/bufread-over-consume", "consume() beyond the exposed buffer");
		}
	}
	finish(fam, v, p, &bytes, ctx);
}

fn finish<T: Debug>(fam: &str, v: &T, p: &Prepared, bytes: &[u8], ctx: &mut Ctx) {
	ctx.label(format!("typed:{fam}"));
	ctx.nontrivial = true;
	ctx.hash_case(&format!("{}|{:?}", p.json, v));
	if ctx.want_sample {
		ctx.sample = Some(serde_json::json!({"family": fam, "schema": trunc(&p.json, 600), "value": trunc(&format!("{v:?}"), 500), "bytes": trunc(&hex(bytes), 200)}));
	}
}

fn run_fam<T: Fam + DeserializeOwned>(t: &mut Tape, ctx: &mut Ctx) {
	let mut d = Defs::default();
	let json = T::schema(t, &mut d);
	let Some(p) = prepare(json, ctx) else { return };
	let v = T::gen(t);
	check_owned(T::NAME, &v, &p, t, ctx);
}

fn in_range(input: &[u8], ptr: *const u8, len: usize) -> bool {
	let lo = input.as_ptr() as usize;
	let hi = lo + input.len();
	let p = ptr as usize;
	len == 0 || (p >= lo && p + len <= hi)
}

fn run_borrowed(t: &mut Tape, ctx: &mut Ctx) {
	let mut d = Defs::default();
	let json = borrowed_schema(t, &mut d);
	let Some(p) = prepare(json, ctx) else { return };
	let o = BorrowedOwned { s: g_str(t), b: gen_bytes(t, 200), c: g_str(t), v: g_vec(t, 5, g_str), o: g_opt(t, g_str), m: g_map(t, 4, g_str), n: gen_i32(t) };
	let v = Borrowed { s: &o.s, b: &o.b, c: Cow::Borrowed(&o.c), v: o.v.iter().map(|s| s.as_str()).collect(), o: o.o.as_deref(), m: o.m.iter().map(|(k, v)| (k.as_str(), v.as_str())).collect(), n: o.n };
	let Some((bytes, alt)) = ser_and_relayout("borrowed", &v, &p, t, ctx) else { return };
	for (which, data) in [("crate-bytes", &bytes), ("reference-layout", &alt)] {
		match serde_avro_fast::from_datum_slice::<Borrowed>(data, &p.cs) {
			Ok(back) => {
				if back != v {
					ctx.violation("C01/typed/round-trip-mismatch/slice/borrowed", format!("schema {} value {:?} -> {which} {} -> {:?}", p.json, v, hex(data), back));
				}
				let mut outside = Vec::new();
				if !in_range(data, back.s.as_ptr(), back.s.len()) {
					outside.push("s");
				}
				if !in_range(data, back.b.as_ptr(), back.b.len()) {
					outside.push("b");
				}
				if let Cow::Borrowed(c) = &back.c {
					if !in_range(data, c.as_ptr(), c.len()) {
						outside.push("c");
					}
				}
				if back.v.iter().any(|s| !in_range(data, s.as_ptr(), s.len())) {
					outside.push("v[]");
				}
				if back.o.map_or(false, |s| !in_range(data, s.as_ptr(), s.len())) {
					outside.push("o");
				}
				if back.m.iter().any(|(k, x)| !in_range(data, k.as_ptr(), k.len()) || !in_range(data, x.as_ptr(), x.len())) {
					outside.push("m{}");
				}
				if !outside.is_empty() {
					ctx.violation("C01/borrow-outside-input", format!("typed borrowed family: fields {outside:?} do not point into the input slice"));
				}
				ctx.label("borrowed-deliveries");
			}
			Err(e) => ctx.violation("C01/typed/deserialize-failed/slice/borrowed", format!("schema {} value {:?} -> {which} {}: {e}", p.json, v, hex(data))),
		}
	}
	finish("borrowed", &v, &p, &bytes, ctx);
}

fn run_unions(t: &mut Tape, ctx: &mut Ctx) {
	let case = UnionsCase::draw(t);
	let mut d = Defs::default();
	let json = case.schema(t, &mut d);
	let Some(p) = prepare(json, ctx) else { return };
	let v = case.gen(t);
	ctx.label(format!("typed:union-branches:{}", case.present.len().min(6)));
	check_owned("enum-as-union", &v, &p, t, ctx);
}

/// top-level values that are not records
fn run_toplevel(t: &mut Tape, ctx: &mut Ctx) {
	fn go<T: Serialize + DeserializeOwned + PartialEq + Debug>(json: &str, v: T, t: &mut Tape, ctx: &mut Ctx) {
		let Some(p) = prepare(json.to_string(), ctx) else { return };
		check_owned("toplevel", &v, &p, t, ctx);
	}
	match t.below(9) {
		0 => go("\"long\"", gen_i64(t), t, ctx),
		1 => go("\"string\"", g_str(t), t, ctx),
		2 => go("\"bytes\"", ByteBuf::from(gen_bytes(t, 300)), t, ctx),
		3 => {
			let j = if t.bool() { r#"["null","long"]"# } else { r#"["long","null"]"# };
			go(j, g_opt(t, gen_i64), t, ctx)
		}
		4 => go(r#"{"type":"map","values":{"type":"array","items":"int"}}"#, g_map(t, 6, |t| g_vec(t, 6, gen_i32)).into_iter().collect::<HashMap<_, _>>(), t, ctx),
		5 => go(r#"{"type":"array","items":["null","string"]}"#, g_vec(t, 10, |t| g_opt(t, g_str)), t, ctx),
		6 => go("\"double\"", g_f64(t), t, ctx),
		7 => go(r#"{"type":"enum","name":"tns.Suit","symbols":["Spades","Hearts","Diamonds","Clubs"]}"#, g_suit(t), t, ctx),
		_ => go("\"boolean\"", t.bool(), t, ctx),
	}
}

pub fn run_typed(t: &mut Tape, ctx: &mut Ctx) {
	match t.below(8) {
		0 => run_fam::<Prims>(t, ctx),
		1 => run_fam::<Opts>(t, ctx),
		2 => run_fam::<Colls>(t, ctx),
		3 => run_unions(t, ctx),
		4 => run_fam::<Tree>(t, ctx),
		5 => run_fam::<Logical>(t, ctx),
		6 => run_borrowed(t, ctx),
		_ => run_toplevel(t, ctx),
	}
}
