//! Typed Rust families for C01 (placeholder: filled in below)
use crate::driver::Ctx;
use crate::tape::Tape;

pub fn run_typed(_t: &mut Tape, ctx: &mut Ctx) {
	ctx.label("typed:none-yet");
}
