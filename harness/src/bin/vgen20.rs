//! vgen20 <seed> <crate-dir> <crate-name> <n_types>: writes a generated family crate
use vh::tape::XorShift;

fn main() {
	let args: Vec<String> = std::env::args().collect();
	if args.len() < 5 {
		eprintln!("usage: vgen20 <seed> <crate-dir> <crate-name> <n_types>");
		std::process::exit(2);
	}
	let seed: u64 = args[1].parse().expect("seed");
	let dir = std::path::Path::new(&args[2]);
	let name = &args[3];
	let n: usize = args[4].parse().expect("n_types");
	let tape = XorShift::new(seed.wrapping_mul(0x9E3779B97F4A7C15) ^ 0xA5A5_5A5A_1234_5678).fill(64 * n + 256);
	let fam = vh::gen20::generate(&tape, name, n);
	std::fs::create_dir_all(dir.join("src")).expect("mkdir");
	std::fs::write(dir.join("src/main.rs"), fam.source).expect("write main.rs");
	let cargo = format!(
		"[package]\nname = \"{name}\"\nversion = \"0.0.0\"\nedition = \"2021\"\npublish = false\n\n[dependencies]\nvh = {{ path = \"/verif/harness\" }}\nserde_avro_fast = {{ path = \"/repo/serde_avro_fast\", features = [\"deflate\", \"bzip2\", \"snappy\", \"xz\", \"zstandard\"] }}\nserde_avro_derive = {{ path = \"/repo/serde_avro_derive\" }}\nserde = {{ version = \"1\", features = [\"rc\"] }}\nserde_derive = \"1\"\nserde_bytes = \"0.11\"\nrust_decimal = {{ version = \"1\", default-features = false, features = [\"serde-with-str\"] }}\n\n[profile.release]\nopt-level = 1\ndebug-assertions = true\noverflow-checks = true\ndebug = 0\ncodegen-units = 16\nincremental = false\n\n[profile.release.package.\"*\"]\nopt-level = 2\ndebug-assertions = false\noverflow-checks = false\n\n[profile.release.package.serde_avro_fast]\nopt-level = 2\ndebug-assertions = true\noverflow-checks = true\n\n[profile.release.package.serde_avro_derive]\ndebug-assertions = true\noverflow-checks = true\n\n[profile.release.package.vh]\nopt-level = 2\ndebug-assertions = true\noverflow-checks = true\n\n[workspace]\n"
	);
	std::fs::write(dir.join("Cargo.toml"), cargo).expect("write Cargo.toml");
	std::fs::create_dir_all(dir.join(".cargo")).expect("mkdir");
	std::fs::write(dir.join(".cargo/config.toml"), "[net]\noffline = true\n\n[build]\ntarget-dir = \"/verif/work/target-gen20\"\nrustflags = [\"--cfg\", \"ten0_serde_avro_fast_verif\"]\n").expect("config");
	let _ = std::fs::copy("/verif/harness/Cargo.lock", dir.join("Cargo.lock"));
	println!("generated {} types into {}", fam.n_types, dir.display());
}
