//! Minimal engine without proptest: deterministic xorshift tapes + corpus replay.
//! Used to run a property's interpreter under Miri and under AddressSanitizer.
//! usage: vmini <ID> <n_cases> <seed> <stats-out.json>

use vh::driver::{corpus_tapes, install_panic_hook, load_known, run_case, save_violation};
use vh::tape::XorShift;

fn main() {
	let args: Vec<String> = std::env::args().collect();
	if args.len() < 5 {
		eprintln!("usage: vmini <ID> <n_cases> <seed> <stats-out.json>");
		std::process::exit(2);
	}
	let def = vh::props::find(&args[1]).expect("unknown property");
	if args[2] == "replay" {
		install_panic_hook();
		let tape = std::fs::read(&args[3]).expect("tape");
		let ctx = run_case(&def, &tape, true);
		for v in &ctx.violations {
			println!("VIOLATION property={} replay={}", def.id, args[3]);
			println!("  signature: {}", v.sig);
			println!("  detail: {}", v.detail);
		}
		println!("vmini replay: {} violation(s)", ctx.violations.len());
		std::process::exit(if ctx.violations.is_empty() { 0 } else { 1 });
	}
	let n: u64 = args[2].parse().expect("n");
	let seed: u64 = args[3].parse().expect("seed");
	install_panic_hook();
	let known = load_known(std::path::Path::new("/verif/known_findings.txt"));
	let mut rng = XorShift::new(seed.wrapping_mul(0x9E3779B97F4A7C15) ^ 0xD1B54A32D192ED03);
	let mut evaluations = 0u64;
	let mut nontrivial = std::collections::BTreeSet::new();
	let mut labels: std::collections::BTreeMap<String, u64> = Default::default();
	let mut violations = Vec::new();
	let mut tapes: Vec<Vec<u8>> = corpus_tapes(def.id).into_iter().filter_map(|p| std::fs::read(p).ok()).collect();
	let replayed = tapes.len();
	for _ in 0..n {
		let len = (rng.next() % (def.max_tape as u64 + 1)) as usize;
		tapes.push(rng.fill(len));
	}
	let mut sample = None;
	let inflight = format!("{}.inflight.tape", args[4]);
	for (i, tape) in tapes.iter().enumerate() {
		// the detector (Miri / ASan) kills the process on a finding: leave the tape behind
		let _ = std::fs::write(&inflight, tape);
		let ctx = run_case(&def, tape, sample.is_none() && i >= replayed);
		evaluations += 1;
		if ctx.nontrivial {
			nontrivial.insert(ctx.case_hash);
		}
		for l in &ctx.labels {
			*labels.entry(l.clone()).or_insert(0) += 1;
		}
		if sample.is_none() {
			sample = ctx.sample.clone();
		}
		for v in &ctx.violations {
			if known.iter().any(|k| k.property == def.id && k.signature == v.sig) {
				continue;
			}
			let path = save_violation(def.id, &v.sig, tape, &v.detail, ctx.sample.as_ref());
			println!("VIOLATION property={} replay={}", def.id, path);
			println!("  signature: {}", v.sig);
			println!("  detail: {}", v.detail);
			violations.push(v.sig.clone());
		}
		if !violations.is_empty() {
			break;
		}
	}
	let stats = serde_json::json!({
		"evaluations": evaluations,
		"replayed": replayed,
		"distinct_nontrivial": nontrivial.len(),
		"labels": labels,
		"sample": sample,
		"violations": violations,
	});
	let _ = std::fs::remove_file(&inflight);
	let _ = std::fs::write(&args[4], serde_json::to_string_pretty(&stats).unwrap());
	println!("vmini {}: evaluations={} distinct_nontrivial={} violations={}", def.id, evaluations, nontrivial.len(), violations.len());
	std::process::exit(if violations.is_empty() { 0 } else { 1 });
}
