//! Reference object-container-file writer and parser, from the specification.
//! Block data are (de)compressed through the high-level stream APIs of the
//! codec libraries (different entry points from the crate's hand-rolled loops).

use super::value::{write_long, Dec};
use std::io::{Read, Write};

#[derive(Clone, Copy, Debug, PartialEq, Eq)]
pub enum Codec {
	Null,
	Deflate,
	Bzip2,
	Snappy,
	Xz,
	Zstandard,
}
pub const ALL_CODECS: &[Codec] = &[Codec::Null, Codec::Deflate, Codec::Bzip2, Codec::Snappy, Codec::Xz, Codec::Zstandard];

impl Codec {
	pub fn name(self) -> &'static str {
		match self {
			Codec::Null => "null",
			Codec::Deflate => "deflate",
			Codec::Bzip2 => "bzip2",
			Codec::Snappy => "snappy",
			Codec::Xz => "xz",
			Codec::Zstandard => "zstandard",
		}
	}
	pub fn from_name(n: &str) -> Option<Codec> {
		ALL_CODECS.iter().copied().find(|c| c.name() == n)
	}
}

pub fn compress(codec: Codec, data: &[u8]) -> Vec<u8> {
	match codec {
		Codec::Null => data.to_vec(),
		Codec::Deflate => {
			let mut e = flate2::write::DeflateEncoder::new(Vec::new(), flate2::Compression::default());
			e.write_all(data).unwrap();
			e.finish().unwrap()
		}
		Codec::Bzip2 => {
			let mut e = bzip2::write::BzEncoder::new(Vec::new(), bzip2::Compression::new(6));
			e.write_all(data).unwrap();
			e.finish().unwrap()
		}
		Codec::Snappy => {
			let mut out = snap::raw::Encoder::new().compress_vec(data).unwrap();
			out.extend_from_slice(&crc32fast::hash(data).to_be_bytes());
			out
		}
		Codec::Xz => {
			let mut e = xz2::write::XzEncoder::new(Vec::new(), 1);
			e.write_all(data).unwrap();
			e.finish().unwrap()
		}
		Codec::Zstandard => zstd::stream::encode_all(data, 1).unwrap(),
	}
}

pub fn decompress(codec: Codec, data: &[u8]) -> Result<Vec<u8>, String> {
	let mut out = Vec::new();
	match codec {
		Codec::Null => out.extend_from_slice(data),
		Codec::Deflate => {
			let mut d = flate2::read::DeflateDecoder::new(data);
			d.read_to_end(&mut out).map_err(|e| format!("deflate: {e}"))?;
			if (d.total_in() as usize) != data.len() {
				return Err(format!("deflate: stream ends after {} of {} bytes", d.total_in(), data.len()));
			}
		}
		Codec::Bzip2 => {
			let mut d = bzip2::read::BzDecoder::new(data);
			d.read_to_end(&mut out).map_err(|e| format!("bzip2: {e}"))?;
			if (d.total_in() as usize) != data.len() {
				return Err(format!("bzip2: stream ends after {} of {} bytes", d.total_in(), data.len()));
			}
		}
		Codec::Snappy => {
			if data.len() < 4 {
				return Err("snappy: block shorter than its CRC".into());
			}
			let (body, crc) = data.split_at(data.len() - 4);
			out = snap::raw::Decoder::new().decompress_vec(body).map_err(|e| format!("snappy: {e}"))?;
			let want = u32::from_be_bytes(crc.try_into().unwrap());
			if crc32fast::hash(&out) != want {
				return Err("snappy: CRC32 (big-endian, of the uncompressed data) mismatch".into());
			}
		}
		Codec::Xz => {
			let mut d = xz2::read::XzDecoder::new(data);
			d.read_to_end(&mut out).map_err(|e| format!("xz: {e}"))?;
			if (d.total_in() as usize) != data.len() {
				return Err(format!("xz: stream ends after {} of {} bytes", d.total_in(), data.len()));
			}
		}
		Codec::Zstandard => {
			out = zstd::stream::decode_all(data).map_err(|e| format!("zstd: {e}"))?;
		}
	}
	Ok(out)
}

#[derive(Clone, Debug)]
pub struct RefBlock {
	pub count: i64,
	/// declared byte size
	pub size: usize,
	/// decompressed data
	pub data: Vec<u8>,
	/// offset of the block's first byte in the file
	pub offset: usize,
	/// offset just after the trailing sync marker
	pub end: usize,
	/// offset of the (compressed) data
	pub data_offset: usize,
}

#[derive(Clone, Debug)]
pub struct RefFile {
	pub metadata: Vec<(String, Vec<u8>)>,
	pub sync: [u8; 16],
	pub header_len: usize,
	pub blocks: Vec<RefBlock>,
	pub codec: Codec,
}

impl RefFile {
	pub fn meta(&self, k: &str) -> Option<&[u8]> {
		self.metadata.iter().find(|(kk, _)| kk == k).map(|(_, v)| v.as_slice())
	}
	pub fn total_objects(&self) -> i64 {
		self.blocks.iter().map(|b| b.count).sum()
	}
}

/// Strict parse of a *complete* container file.
pub fn ref_parse(bytes: &[u8]) -> Result<RefFile, String> {
	if bytes.len() < 4 || &bytes[0..4] != b"Obj\x01" {
		return Err("bad magic".into());
	}
	let mut d = Dec::new(bytes);
	d.pos = 4;
	// metadata: map<bytes>
	let mut metadata: Vec<(String, Vec<u8>)> = Vec::new();
	loop {
		let c = d.long()?;
		if c == 0 {
			break;
		}
		let n = if c < 0 {
			let sz = d.long()?;
			if sz < 0 {
				return Err("negative metadata block size".into());
			}
			c.checked_neg().ok_or("count overflow")?
		} else {
			c
		};
		for _ in 0..n {
			let kl = d.long()?;
			if kl < 0 || d.pos + kl as usize > bytes.len() {
				return Err("bad metadata key length".into());
			}
			let k = std::str::from_utf8(&bytes[d.pos..d.pos + kl as usize]).map_err(|e| e.to_string())?.to_string();
			d.pos += kl as usize;
			let vl = d.long()?;
			if vl < 0 || d.pos + vl as usize > bytes.len() {
				return Err("bad metadata value length".into());
			}
			let v = bytes[d.pos..d.pos + vl as usize].to_vec();
			d.pos += vl as usize;
			metadata.push((k, v));
		}
	}
	if d.pos + 16 > bytes.len() {
		return Err("header truncated before sync marker".into());
	}
	let sync: [u8; 16] = bytes[d.pos..d.pos + 16].try_into().unwrap();
	d.pos += 16;
	let header_len = d.pos;
	let codec = match metadata.iter().find(|(k, _)| k == "avro.codec") {
		None => Codec::Null,
		Some((_, v)) => Codec::from_name(std::str::from_utf8(v).map_err(|e| e.to_string())?).ok_or_else(|| format!("unknown codec {:?}", String::from_utf8_lossy(v)))?,
	};
	if !metadata.iter().any(|(k, _)| k == "avro.schema") {
		return Err("no avro.schema in metadata".into());
	}
	let mut blocks = Vec::new();
	while d.pos < bytes.len() {
		let offset = d.pos;
		let count = d.long()?;
		if count < 0 {
			return Err(format!("negative object count {count}"));
		}
		let size = d.long()?;
		if size < 0 {
			return Err(format!("negative block size {size}"));
		}
		let size = size as usize;
		if d.pos + size + 16 > bytes.len() {
			return Err(format!("block at {offset} (size {size}) runs past the end of the file"));
		}
		let data_offset = d.pos;
		let raw = &bytes[d.pos..d.pos + size];
		d.pos += size;
		if bytes[d.pos..d.pos + 16] != sync {
			return Err(format!("sync marker mismatch after block at {offset}"));
		}
		d.pos += 16;
		let data = decompress(codec, raw)?;
		blocks.push(RefBlock { count, size, data, offset, end: d.pos, data_offset });
	}
	Ok(RefFile { metadata, sync, header_len, blocks, codec })
}

/// How the reference writer lays out the header's metadata map
pub struct MetaLayout {
	/// sizes of the metadata map's blocks (must sum to the number of entries; empty => single block)
	pub partition: Vec<usize>,
	pub negative: Vec<bool>,
}

pub fn ref_write_header(meta: &[(String, Vec<u8>)], layout: &MetaLayout, sync: &[u8; 16]) -> Vec<u8> {
	let mut out = b"Obj\x01".to_vec();
	let mut parts: Vec<(usize, bool)> = layout.partition.iter().copied().zip(layout.negative.iter().copied().chain(std::iter::repeat(false))).collect();
	if parts.iter().map(|p| p.0).sum::<usize>() != meta.len() {
		parts = if meta.is_empty() { vec![] } else { vec![(meta.len(), false)] };
	}
	let mut idx = 0;
	for (n, neg) in parts {
		if n == 0 {
			continue;
		}
		let mut buf = Vec::new();
		for (k, v) in &meta[idx..idx + n] {
			write_long(k.len() as i64, &mut buf);
			buf.extend_from_slice(k.as_bytes());
			write_long(v.len() as i64, &mut buf);
			buf.extend_from_slice(v);
		}
		if neg {
			write_long(-(n as i64), &mut out);
			write_long(buf.len() as i64, &mut out);
		} else {
			write_long(n as i64, &mut out);
		}
		out.extend_from_slice(&buf);
		idx += n;
	}
	write_long(0, &mut out);
	out.extend_from_slice(sync);
	out
}

pub fn ref_write_block(out: &mut Vec<u8>, codec: Codec, count: usize, data: &[u8], sync: &[u8; 16]) {
	let c = compress(codec, data);
	write_long(count as i64, out);
	write_long(c.len() as i64, out);
	out.extend_from_slice(&c);
	out.extend_from_slice(sync);
}
