pub mod container;
pub mod schema;
pub mod value;
pub use schema::*;
pub use value::*;
