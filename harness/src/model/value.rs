//! Model values, conforming-value generation, spec-exact binary encoder with
//! every legal block layout, and a strict decoder.

use super::schema::*;
use crate::tape::Tape;

#[derive(Clone, Debug, PartialEq)]
pub enum MValue {
	Null,
	Bool(bool),
	Int(i32),
	Long(i64),
	/// bit pattern
	Float(u32),
	/// bit pattern
	Double(u64),
	Bytes(Vec<u8>),
	Str(String),
	Array(Vec<MValue>),
	Map(Vec<(String, MValue)>),
	Union(usize, Box<MValue>),
	Record(Vec<MValue>),
	Enum(usize),
	Fixed(Vec<u8>),
	/// unscaled value; the scale is the schema's
	Decimal(i128),
	BigDecimal { unscaled: i128, scale: u32 },
	Duration(u32, u32, u32),
}

impl MValue {
	/// Maps carry no order in Avro: sort entries for comparison
	pub fn normalized(&self) -> MValue {
		match self {
			MValue::Array(v) => MValue::Array(v.iter().map(|x| x.normalized()).collect()),
			MValue::Map(v) => {
				let mut e: Vec<(String, MValue)> = v.iter().map(|(k, x)| (k.clone(), x.normalized())).collect();
				e.sort_by(|a, b| a.0.cmp(&b.0).then_with(|| format!("{:?}", a.1).cmp(&format!("{:?}", b.1))));
				MValue::Map(e)
			}
			MValue::Union(i, v) => MValue::Union(*i, Box::new(v.normalized())),
			MValue::Record(v) => MValue::Record(v.iter().map(|x| x.normalized()).collect()),
			MValue::BigDecimal { unscaled, scale } => {
				// same decimal value: strip trailing zeros
				let (mut u, mut s) = (*unscaled, *scale);
				while s > 0 && u % 10 == 0 {
					u /= 10;
					s -= 1;
				}
				MValue::BigDecimal { unscaled: u, scale: s }
			}
			other => other.clone(),
		}
	}
	pub fn same(&self, other: &MValue) -> bool {
		self.normalized() == other.normalized()
	}
}

#[derive(Clone)]
pub struct ValCfg {
	pub max_depth: usize,
	pub max_coll: usize,
	pub max_str: usize,
	/// total node budget
	pub max_nodes: usize,
}
impl Default for ValCfg {
	fn default() -> Self {
		ValCfg { max_depth: 24, max_coll: 12, max_str: 300, max_nodes: 400 }
	}
}

pub const I64_BOUNDARIES: &[i64] = &[
	0,
	1,
	-1,
	2,
	63,
	64,
	-64,
	-65,
	65,
	127,
	128,
	8191,
	8192,
	-8192,
	-8193,
	1048575,
	1048576,
	-1048576,
	-1048577,
	134217727,
	134217728,
	-134217728,
	-134217729,
	i32::MAX as i64,
	i32::MIN as i64,
	i32::MAX as i64 + 1,
	i32::MIN as i64 - 1,
	(1 << 34) - 1,
	1 << 34,
	-(1 << 34),
	-(1 << 34) - 1,
	(1 << 41) - 1,
	1 << 41,
	(1 << 48) - 1,
	1 << 48,
	-(1 << 48) - 1,
	(1 << 55) - 1,
	1 << 55,
	-(1 << 55) - 1,
	(1 << 62) - 1,
	1 << 62,
	-(1 << 62),
	-(1 << 62) - 1,
	i64::MAX,
	i64::MIN,
	i64::MAX - 1,
	i64::MIN + 1,
];

pub fn gen_i64(t: &mut Tape) -> i64 {
	match t.below(4) {
		0 => *t.pick(I64_BOUNDARIES),
		1 => (t.byte() as i8) as i64,
		2 => t.u32() as i32 as i64,
		_ => t.u64() as i64,
	}
}
pub fn gen_i32(t: &mut Tape) -> i32 {
	match t.below(4) {
		0 => {
			let ints: Vec<i64> = I64_BOUNDARIES.iter().copied().filter(|v| *v >= i32::MIN as i64 && *v <= i32::MAX as i64).collect();
			*t.pick(&ints) as i32
		}
		1 => (t.byte() as i8) as i32,
		2 => t.u16() as i16 as i32,
		_ => t.u32() as i32,
	}
}

const F32_SPECIAL: &[u32] = &[0, 0x8000_0000, 0x3f80_0000, 0xbf80_0000, 0x7f80_0000, 0xff80_0000, 0x7fc0_0000, 0x7fa0_0001, 0xffc0_1234, 0x0000_0001, 0x007f_ffff, 0x7f7f_ffff, 0x0080_0000];
const F64_SPECIAL: &[u64] = &[
	0,
	0x8000_0000_0000_0000,
	0x3ff0_0000_0000_0000,
	0xbff0_0000_0000_0000,
	0x7ff0_0000_0000_0000,
	0xfff0_0000_0000_0000,
	0x7ff8_0000_0000_0000,
	0x7ff4_0000_0000_0001,
	0xfff8_0000_dead_beef,
	1,
	0x000f_ffff_ffff_ffff,
	0x7fef_ffff_ffff_ffff,
];

const STR_SAMPLES: &[&str] = &["", "a", "foo", "héllo", "日本語", "\u{0}", "a\u{10FFFF}b", "with \"quotes\" and \\", "\u{7f}\u{80}\u{7ff}\u{800}\u{ffff}"];

pub fn gen_string(t: &mut Tape, max: usize) -> String {
	match t.below(6) {
		0 | 1 => (*t.pick(STR_SAMPLES)).to_string(),
		2 => {
			// length on a varint boundary
			let n = *t.pick(&[63usize, 64, 65, 127, 128, 8191, 8192, 8193]);
			let n = n.min(max.max(70));
			let c = (b'a' + t.below(26) as u8) as char;
			std::iter::repeat(c).take(n).collect()
		}
		3 => {
			let n = t.small(max.min(40));
			(0..n).map(|_| (b' ' + t.below(95) as u8) as char).collect()
		}
		4 => {
			let n = t.small(max.min(20));
			(0..n)
				.map(|_| {
					let c = t.u32() % 0x11_0000;
					char::from_u32(c).unwrap_or('\u{fffd}')
				})
				.collect()
		}
		_ => {
			let n = t.below(max + 1);
			let c = (b'A' + t.below(26) as u8) as char;
			std::iter::repeat(c).take(n).collect()
		}
	}
}

pub fn gen_bytes(t: &mut Tape, max: usize) -> Vec<u8> {
	match t.below(5) {
		0 => vec![],
		1 => {
			let n = *t.pick(&[1usize, 63, 64, 65, 127, 128, 8191, 8192]);
			let n = n.min(max.max(70));
			let b = t.byte();
			vec![b; n]
		}
		2 => {
			let n = t.small(max.min(32));
			t.bytes(n)
		}
		3 => {
			// invalid utf-8 on purpose
			vec![0xff, 0xfe, 0x80, 0xc0]
		}
		_ => {
			let n = t.below(max + 1);
			let seed = t.u32() as u64;
			crate::tape::XorShift::new(seed).fill(n)
		}
	}
}

/// i128 bounded to `bytes` bytes two's complement
pub fn gen_unscaled(t: &mut Tape, max_bytes: usize, mantissa96: bool) -> i128 {
	let max_bits = (max_bytes * 8).min(if mantissa96 { 97 } else { 128 });
	if max_bits == 0 {
		return 0;
	}
	// value range: [-2^(b-1), 2^(b-1)-1], with 96-bit mantissa => |v| < 2^96
	let (lo, hi): (i128, i128) = if max_bits >= 128 {
		(i128::MIN, i128::MAX)
	} else {
		(-(1i128 << (max_bits - 1)), (1i128 << (max_bits - 1)) - 1)
	};
	let (lo, hi) = if mantissa96 {
		let m = (1i128 << 96) - 1;
		(lo.max(-m), hi.min(m))
	} else {
		(lo, hi)
	};
	let v: i128 = match t.below(8) {
		0 => 0,
		1 => *t.pick(&[1i128, -1, 127, 128, -128, -129, 255, 256, 32767, 32768, -32768, -32769, 65535, 65536]),
		2 => hi,
		3 => lo,
		4 => {
			// byte-length boundaries 2^(8k-1) +- 1
			let k = 1 + t.below(16) as u32;
			let b = 1i128.checked_shl(8 * k - 1).unwrap_or(i128::MAX);
			*t.pick(&[b.wrapping_sub(1), b, b.wrapping_neg(), b.wrapping_neg().wrapping_sub(1)])
		}
		5 => gen_i64(t) as i128,
		6 => {
			let m = (1i128 << 95) + (t.u64() as i128);
			if t.bool() {
				m
			} else {
				-m
			}
		}
		_ => t.u128() as i128,
	};
	v.clamp(lo, hi)
}

pub struct ValueGen<'t, 'd, 'e> {
	pub tape: &'t mut Tape<'d>,
	pub env: &'e Env<'e>,
	pub cfg: ValCfg,
	pub nodes: usize,
}

impl<'t, 'd, 'e> ValueGen<'t, 'd, 'e> {
	pub fn new(tape: &'t mut Tape<'d>, env: &'e Env<'e>, cfg: ValCfg) -> Self {
		ValueGen { tape, env, cfg, nodes: 0 }
	}
	pub fn gen(&mut self, s: &MSchema) -> MValue {
		self.gen_at(s, 0)
	}
	fn gen_at(&mut self, s: &MSchema, depth: usize) -> MValue {
		self.nodes += 1;
		let r = self.env.resolve(s);
		let t = &mut *self.tape;
		let tight = depth >= self.cfg.max_depth || self.nodes >= self.cfg.max_nodes;
		match kind_of_resolved(r) {
			Kind::Null => MValue::Null,
			Kind::Boolean => MValue::Bool(t.bool()),
			Kind::Int | Kind::Date | Kind::TimeMillis => MValue::Int(gen_i32(t)),
			Kind::Long | Kind::TimeMicros | Kind::TimestampMillis | Kind::TimestampMicros => MValue::Long(gen_i64(t)),
			Kind::Float => MValue::Float(if t.bool() { *t.pick(F32_SPECIAL) } else { t.u32() }),
			Kind::Double => MValue::Double(if t.bool() { *t.pick(F64_SPECIAL) } else { t.u64() }),
			Kind::Bytes => MValue::Bytes(gen_bytes(t, self.cfg.max_str)),
			Kind::String => MValue::Str(gen_string(t, self.cfg.max_str)),
			Kind::Uuid => MValue::Str(if t.bool() {
				"123e4567-e89b-12d3-a456-426614174000".to_string()
			} else {
				let b = t.bytes(16);
				let h: String = b.iter().map(|x| format!("{x:02x}")).collect();
				format!("{}-{}-{}-{}-{}", &h[0..8], &h[8..12], &h[12..16], &h[16..20], &h[20..32])
			}),
			Kind::Array => {
				let item = match &r.ty {
					MType::Array(i) => &**i,
					_ => unreachable!(),
				};
				let n = if tight { 0 } else { t.small(self.cfg.max_coll) };
				let mut v = Vec::new();
				for _ in 0..n {
					if self.nodes >= self.cfg.max_nodes {
						break;
					}
					v.push(self.gen_at(item, depth + 1));
				}
				MValue::Array(v)
			}
			Kind::Map => {
				let item = match &r.ty {
					MType::Map(i) => &**i,
					_ => unreachable!(),
				};
				let n = if tight { 0 } else { t.small(self.cfg.max_coll) };
				let mut v: Vec<(String, MValue)> = Vec::new();
				for i in 0..n {
					if self.nodes >= self.cfg.max_nodes {
						break;
					}
					let mut k = match self.tape.below(4) {
						0 => format!("k{i}"),
						1 => gen_string(self.tape, 20),
						2 => (*self.tape.pick(&["a", "b", "months", "type", "", "ключ"])).to_string(),
						_ => format!("key_{}", self.tape.byte()),
					};
					while v.iter().any(|(kk, _)| *kk == k) {
						k.push('_');
					}
					let val = self.gen_at(item, depth + 1);
					v.push((k, val));
				}
				MValue::Map(v)
			}
			Kind::Union => {
				let bs = match &r.ty {
					MType::Union(bs) => bs,
					_ => unreachable!(),
				};
				let i = if tight {
					0
				} else {
					// (wide unions: every other draw lands on a branch whose discriminant needs a two-byte varint)
					let j = t.below(bs.len());
					if bs.len() > 64 && j % 2 == 0 {
						64 + (j / 2) % (bs.len() - 64)
					} else {
						j
					}
				};
				MValue::Union(i, Box::new(self.gen_at(&bs[i], depth + 1)))
			}
			Kind::Record => {
				let fields = match &r.ty {
					MType::Record { fields, .. } => fields,
					_ => unreachable!(),
				};
				MValue::Record(fields.iter().map(|(_, f)| self.gen_at(f, depth + 1)).collect())
			}
			Kind::Enum => {
				let n = match &r.ty {
					MType::Enum { symbols, .. } => symbols.len(),
					_ => unreachable!(),
				};
				MValue::Enum(t.below(n))
			}
			Kind::Fixed(size) => {
				let v = match t.below(3) {
					0 => vec![0u8; size],
					1 => vec![0xffu8; size],
					_ => {
						if size <= 64 {
							t.bytes(size)
						} else {
							let seed = t.u32() as u64;
							crate::tape::XorShift::new(seed).fill(size)
						}
					}
				};
				MValue::Fixed(v)
			}
			Kind::DecimalBytes { .. } => MValue::Decimal(gen_unscaled(t, 16, true)),
			Kind::DecimalFixed { size, .. } => MValue::Decimal(gen_unscaled(t, size.min(16), true)),
			Kind::BigDecimal => {
				let scale = match t.below(4) {
					0 => 0,
					1 => 2,
					2 => t.below(29) as u32,
					_ => 28,
				};
				MValue::BigDecimal { unscaled: gen_unscaled(t, 16, true), scale }
			}
			Kind::Duration => {
				let g = |t: &mut Tape| match t.below(4) {
					0 => 0u32,
					1 => u32::MAX,
					2 => t.byte() as u32,
					_ => t.u32(),
				};
				MValue::Duration(g(t), g(t), g(t))
			}
		}
	}
}

// ---------------------------------------------------------------------------
// Encoding
// ---------------------------------------------------------------------------

pub fn zigzag(v: i64) -> u64 {
	((v << 1) ^ (v >> 63)) as u64
}
pub fn write_varint_u64(mut z: u64, out: &mut Vec<u8>) {
	loop {
		let b = (z & 0x7f) as u8;
		z >>= 7;
		if z == 0 {
			out.push(b);
			break;
		} else {
			out.push(b | 0x80);
		}
	}
}
pub fn write_long(v: i64, out: &mut Vec<u8>) {
	write_varint_u64(zigzag(v), out)
}

/// minimal big-endian two's complement
pub fn twos_complement_minimal(v: i128) -> Vec<u8> {
	let b = v.to_be_bytes();
	let mut start = 0;
	while start < 15 {
		let cur = b[start];
		let next_msb = b[start + 1] & 0x80;
		if (cur == 0x00 && next_msb == 0) || (cur == 0xff && next_msb != 0) {
			start += 1;
		} else {
			break;
		}
	}
	b[start..].to_vec()
}
pub fn twos_complement_sized(v: i128, size: usize) -> Option<Vec<u8>> {
	let min = twos_complement_minimal(v);
	if min.len() > size {
		return None;
	}
	let fill = if v < 0 { 0xff } else { 0x00 };
	let mut o = vec![fill; size - min.len()];
	o.extend_from_slice(&min);
	Some(o)
}

/// How arrays/maps are laid out into blocks, and decimals padded.
pub enum Layout<'t, 'd> {
	/// what a typical writer emits: one positive-count block, then 0
	Single,
	/// tape-chosen partition; blocks may use negative count + byte size
	Tape(&'t mut Tape<'d>),
}

#[derive(Default, Clone, Debug)]
pub struct LayoutStats {
	pub multi_block: usize,
	pub negative_blocks: usize,
	pub padded_decimals: usize,
}

#[derive(Clone, Debug, PartialEq)]
pub enum MarkKind {
	Bool,
	/// int/long value
	Varint,
	UnionIdx(usize),
	EnumIdx(usize),
	/// length prefix of a string / bytes value
	StrLen,
	BytesLen,
	StrData,
	BytesData,
	KeyLen,
	KeyData,
	BlockCount,
	BlockSize,
	FixedData,
	Float,
}
#[derive(Clone, Debug)]
pub struct Mark {
	pub off: usize,
	pub len: usize,
	pub kind: MarkKind,
}

pub struct Encoder<'e, 'l, 't, 'd> {
	pub env: &'e Env<'e>,
	pub layout: &'l mut Layout<'t, 'd>,
	pub stats: LayoutStats,
	/// typed positions inside the output (for malformations and chunk-straddle accounting)
	pub marks: Vec<Mark>,
}

impl<'e, 'l, 't, 'd> Encoder<'e, 'l, 't, 'd> {
	pub fn new(env: &'e Env<'e>, layout: &'l mut Layout<'t, 'd>) -> Self {
		Encoder { env, layout, stats: LayoutStats::default(), marks: Vec::new() }
	}

	fn mark(&mut self, start: usize, out: &Vec<u8>, kind: MarkKind) {
		self.marks.push(Mark { off: start, len: out.len() - start, kind });
	}

	fn long(&mut self, v: i64, out: &mut Vec<u8>, kind: MarkKind) {
		let st = out.len();
		write_long(v, out);
		self.mark(st, out, kind);
	}

	fn raw(&mut self, b: &[u8], out: &mut Vec<u8>, kind: MarkKind) {
		let st = out.len();
		out.extend_from_slice(b);
		self.mark(st, out, kind);
	}

	fn partition(&mut self, n: usize) -> Vec<(usize, bool)> {
		if n == 0 {
			return vec![];
		}
		match self.layout {
			Layout::Single => vec![(n, false)],
			Layout::Tape(t) => {
				let mut out = Vec::new();
				let mut left = n;
				while left > 0 {
					let k = match t.below(4) {
						0 => left,
						1 => 1,
						_ => 1 + t.below(left),
					};
					let neg = t.chance(90);
					out.push((k, neg));
					left -= k;
				}
				out
			}
		}
	}

	/// Encode `n` items produced by `f` as blocks
	fn blocks<T>(&mut self, items: &[T], out: &mut Vec<u8>, mut f: impl FnMut(&mut Self, &T, &mut Vec<u8>) -> Result<(), String>) -> Result<(), String> {
		let parts = self.partition(items.len());
		if parts.len() > 1 {
			self.stats.multi_block += 1;
		}
		let mut idx = 0;
		for (n, neg) in parts {
			if neg {
				self.stats.negative_blocks += 1;
				let mut buf = Vec::new();
				let base_marks = self.marks.len();
				for it in &items[idx..idx + n] {
					f(self, it, &mut buf)?;
				}
				self.long(-(n as i64), out, MarkKind::BlockCount);
				self.long(buf.len() as i64, out, MarkKind::BlockSize);
				// the marks recorded while encoding into `buf` are relative to it; they
				// were pushed before the two header marks: shift them
				let shift = out.len();
				let nmarks = self.marks.len();
				for m in &mut self.marks[base_marks..nmarks - 2] {
					m.off += shift;
				}
				out.extend_from_slice(&buf);
			} else {
				self.long(n as i64, out, MarkKind::BlockCount);
				for it in &items[idx..idx + n] {
					f(self, it, out)?;
				}
			}
			idx += n;
		}
		self.long(0, out, MarkKind::BlockCount);
		Ok(())
	}

	pub fn encode(&mut self, s: &MSchema, v: &MValue, out: &mut Vec<u8>) -> Result<(), String> {
		let env = self.env;
		let r = env.resolve(s);
		let k = kind_of_resolved(r);
		match (&k, v) {
			(Kind::Null, MValue::Null) => {}
			(Kind::Boolean, MValue::Bool(b)) => self.raw(&[*b as u8], out, MarkKind::Bool),
			(Kind::Int | Kind::Date | Kind::TimeMillis, MValue::Int(i)) => self.long(*i as i64, out, MarkKind::Varint),
			(Kind::Long | Kind::TimeMicros | Kind::TimestampMillis | Kind::TimestampMicros, MValue::Long(i)) => self.long(*i, out, MarkKind::Varint),
			(Kind::Float, MValue::Float(bits)) => self.raw(&bits.to_le_bytes(), out, MarkKind::Float),
			(Kind::Double, MValue::Double(bits)) => self.raw(&bits.to_le_bytes(), out, MarkKind::Float),
			(Kind::Bytes, MValue::Bytes(b)) => {
				self.long(b.len() as i64, out, MarkKind::BytesLen);
				self.raw(b, out, MarkKind::BytesData);
			}
			(Kind::String | Kind::Uuid, MValue::Str(st)) => {
				self.long(st.len() as i64, out, MarkKind::StrLen);
				self.raw(st.as_bytes(), out, MarkKind::StrData);
			}
			(Kind::Array, MValue::Array(items)) => {
				let item_s = match &r.ty {
					MType::Array(i) => &**i,
					_ => unreachable!(),
				};
				self.blocks(items, out, |e, it, o| e.encode(item_s, it, o))?;
			}
			(Kind::Map, MValue::Map(entries)) => {
				let item_s = match &r.ty {
					MType::Map(i) => &**i,
					_ => unreachable!(),
				};
				self.blocks(entries, out, |e, (key, it), o| {
					e.long(key.len() as i64, o, MarkKind::KeyLen);
					e.raw(key.as_bytes(), o, MarkKind::KeyData);
					e.encode(item_s, it, o)
				})?;
			}
			(Kind::Union, MValue::Union(i, inner)) => {
				let bs = match &r.ty {
					MType::Union(bs) => bs,
					_ => unreachable!(),
				};
				let b = bs.get(*i).ok_or("union index out of range")?;
				self.long(*i as i64, out, MarkKind::UnionIdx(bs.len()));
				self.encode(b, inner, out)?;
			}
			(Kind::Record, MValue::Record(vals)) => {
				let fields = match &r.ty {
					MType::Record { fields, .. } => fields,
					_ => unreachable!(),
				};
				if fields.len() != vals.len() {
					return Err("record arity".into());
				}
				for ((_, fs), fv) in fields.iter().zip(vals) {
					self.encode(fs, fv, out)?;
				}
			}
			(Kind::Enum, MValue::Enum(i)) => {
				let n = match &r.ty {
					MType::Enum { symbols, .. } => symbols.len(),
					_ => unreachable!(),
				};
				self.long(*i as i64, out, MarkKind::EnumIdx(n))
			}
			(Kind::Fixed(size), MValue::Fixed(b)) => {
				if b.len() != *size {
					return Err("fixed size".into());
				}
				self.raw(b, out, MarkKind::FixedData);
			}
			(Kind::DecimalBytes { .. }, MValue::Decimal(u)) => {
				let mut b = twos_complement_minimal(*u);
				if let Layout::Tape(t) = self.layout {
					if t.chance(40) && b.len() < 16 {
						// non-minimal (sign-extended) representation is a valid encoding too
						let extra = 1 + t.below(16 - b.len());
						let fill = if *u < 0 { 0xff } else { 0 };
						let mut p = vec![fill; extra];
						p.extend_from_slice(&b);
						b = p;
						self.stats.padded_decimals += 1;
					}
				}
				self.long(b.len() as i64, out, MarkKind::BytesLen);
				self.raw(&b, out, MarkKind::FixedData);
			}
			(Kind::DecimalFixed { size, .. }, MValue::Decimal(u)) => {
				let b = twos_complement_sized(*u, *size).ok_or("decimal does not fit fixed")?;
				self.raw(&b, out, MarkKind::FixedData);
			}
			(Kind::BigDecimal, MValue::BigDecimal { unscaled, scale }) => {
				let mut inner = Vec::new();
				let b = twos_complement_minimal(*unscaled);
				write_long(b.len() as i64, &mut inner);
				inner.extend_from_slice(&b);
				write_long(*scale as i64, &mut inner);
				self.long(inner.len() as i64, out, MarkKind::BytesLen);
				self.raw(&inner, out, MarkKind::FixedData);
			}
			(Kind::Duration, MValue::Duration(m, d, ms)) => {
				let mut b = Vec::with_capacity(12);
				b.extend_from_slice(&m.to_le_bytes());
				b.extend_from_slice(&d.to_le_bytes());
				b.extend_from_slice(&ms.to_le_bytes());
				self.raw(&b, out, MarkKind::FixedData);
			}
			(k, v) => return Err(format!("model: value {v:?} does not conform to kind {k:?}")),
		}
		Ok(())
	}
}

pub fn encode_single(env: &Env, s: &MSchema, v: &MValue) -> Result<Vec<u8>, String> {
	let mut out = Vec::new();
	let mut l = Layout::Single;
	let mut e = Encoder::new(env, &mut l);
	e.encode(s, v, &mut out)?;
	Ok(out)
}

// ---------------------------------------------------------------------------
// Strict decoding
// ---------------------------------------------------------------------------

pub struct Dec<'a> {
	pub data: &'a [u8],
	pub pos: usize,
	pub depth: usize,
}

impl<'a> Dec<'a> {
	pub fn new(data: &'a [u8]) -> Self {
		Dec { data, pos: 0, depth: 0 }
	}
	fn take(&mut self, n: usize) -> Result<&'a [u8], String> {
		if self.data.len() - self.pos < n {
			return Err(format!("premature end: need {n} at {}", self.pos));
		}
		let s = &self.data[self.pos..self.pos + n];
		self.pos += n;
		Ok(s)
	}
	pub fn long(&mut self) -> Result<i64, String> {
		let mut z: u64 = 0;
		let mut shift = 0;
		let mut n = 0;
		loop {
			let b = *self.data.get(self.pos).ok_or("premature end in varint")?;
			self.pos += 1;
			n += 1;
			if n > 10 {
				return Err("varint too long".into());
			}
			if n == 10 && b > 1 {
				return Err("varint overflows 64 bits".into());
			}
			z |= ((b & 0x7f) as u64) << shift;
			shift += 7;
			if b & 0x80 == 0 {
				if n > 1 && b == 0 {
					return Err("non-minimal varint".into());
				}
				break;
			}
		}
		Ok(((z >> 1) as i64) ^ -((z & 1) as i64))
	}
	pub fn int(&mut self) -> Result<i32, String> {
		let v = self.long()?;
		i32::try_from(v).map_err(|_| format!("int out of range: {v}"))
	}
	fn len(&mut self) -> Result<usize, String> {
		let v = self.long()?;
		if v < 0 {
			return Err(format!("negative length {v}"));
		}
		Ok(v as usize)
	}

	pub fn decode(&mut self, env: &Env, s: &MSchema) -> Result<MValue, String> {
		self.depth += 1;
		if self.depth > 2000 {
			return Err("model: depth".into());
		}
		let r = env.resolve(s);
		let k = kind_of_resolved(r);
		let v = match k {
			Kind::Null => MValue::Null,
			Kind::Boolean => match self.take(1)?[0] {
				0 => MValue::Bool(false),
				1 => MValue::Bool(true),
				b => return Err(format!("invalid boolean byte {b}")),
			},
			Kind::Int | Kind::Date | Kind::TimeMillis => MValue::Int(self.int()?),
			Kind::Long | Kind::TimeMicros | Kind::TimestampMillis | Kind::TimestampMicros => MValue::Long(self.long()?),
			Kind::Float => MValue::Float(u32::from_le_bytes(self.take(4)?.try_into().unwrap())),
			Kind::Double => MValue::Double(u64::from_le_bytes(self.take(8)?.try_into().unwrap())),
			Kind::Bytes => {
				let n = self.len()?;
				MValue::Bytes(self.take(n)?.to_vec())
			}
			Kind::String | Kind::Uuid => {
				let n = self.len()?;
				let b = self.take(n)?;
				MValue::Str(std::str::from_utf8(b).map_err(|e| format!("invalid utf-8: {e}"))?.to_string())
			}
			Kind::Array => {
				let item = match &r.ty {
					MType::Array(i) => &**i,
					_ => unreachable!(),
				};
				let mut out = Vec::new();
				loop {
					let c = self.long()?;
					if c == 0 {
						break;
					}
					let (n, size) = if c < 0 {
						let size = self.long()?;
						if size < 0 {
							return Err("negative block byte size".into());
						}
						(c.checked_neg().ok_or("block count overflow")? as u64, Some(size as usize))
					} else {
						(c as u64, None)
					};
					let start = self.pos;
					for _ in 0..n {
						if self.pos >= self.data.len() && !zero_size_possible(env, item) {
							return Err("premature end in array block".into());
						}
						out.push(self.decode(env, item)?);
						if out.len() > 10_000_000 {
							return Err("model: too many items".into());
						}
					}
					if let Some(size) = size {
						if self.pos - start != size {
							return Err(format!("block byte size {size} disagrees with contents {}", self.pos - start));
						}
					}
				}
				MValue::Array(out)
			}
			Kind::Map => {
				let item = match &r.ty {
					MType::Map(i) => &**i,
					_ => unreachable!(),
				};
				let mut out = Vec::new();
				loop {
					let c = self.long()?;
					if c == 0 {
						break;
					}
					let (n, size) = if c < 0 {
						let size = self.long()?;
						if size < 0 {
							return Err("negative block byte size".into());
						}
						(c.checked_neg().ok_or("block count overflow")? as u64, Some(size as usize))
					} else {
						(c as u64, None)
					};
					let start = self.pos;
					for _ in 0..n {
						let kl = self.len()?;
						let kb = self.take(kl)?;
						let key = std::str::from_utf8(kb).map_err(|e| format!("invalid utf-8 in map key: {e}"))?.to_string();
						let val = self.decode(env, item)?;
						out.push((key, val));
					}
					if let Some(size) = size {
						if self.pos - start != size {
							return Err(format!("block byte size {size} disagrees with contents {}", self.pos - start));
						}
					}
				}
				MValue::Map(out)
			}
			Kind::Union => {
				let bs = match &r.ty {
					MType::Union(bs) => bs,
					_ => unreachable!(),
				};
				let i = self.long()?;
				if i < 0 || i as usize >= bs.len() {
					return Err(format!("union index {i} out of range"));
				}
				let inner = self.decode(env, &bs[i as usize])?;
				MValue::Union(i as usize, Box::new(inner))
			}
			Kind::Record => {
				let fields = match &r.ty {
					MType::Record { fields, .. } => fields,
					_ => unreachable!(),
				};
				let mut out = Vec::with_capacity(fields.len());
				for (_, f) in fields {
					out.push(self.decode(env, f)?);
				}
				MValue::Record(out)
			}
			Kind::Enum => {
				let n = match &r.ty {
					MType::Enum { symbols, .. } => symbols.len(),
					_ => unreachable!(),
				};
				let i = self.long()?;
				if i < 0 || i as usize >= n {
					return Err(format!("enum index {i} out of range"));
				}
				MValue::Enum(i as usize)
			}
			Kind::Fixed(size) => MValue::Fixed(self.take(size)?.to_vec()),
			Kind::DecimalBytes { .. } => {
				let n = self.len()?;
				let b = self.take(n)?;
				MValue::Decimal(from_twos_complement(b)?)
			}
			Kind::DecimalFixed { size, .. } => {
				let b = self.take(size)?;
				MValue::Decimal(from_twos_complement(b)?)
			}
			Kind::BigDecimal => {
				let n = self.len()?;
				let b = self.take(n)?;
				let mut inner = Dec::new(b);
				let ul = inner.len()?;
				let ub = inner.take(ul)?;
				let unscaled = from_twos_complement(ub)?;
				let scale = inner.long()?;
				if inner.pos != b.len() {
					return Err("big-decimal: trailing bytes".into());
				}
				if scale < 0 || scale > u32::MAX as i64 {
					return Err("big-decimal: bad scale".into());
				}
				MValue::BigDecimal { unscaled, scale: scale as u32 }
			}
			Kind::Duration => {
				let b = self.take(12)?;
				MValue::Duration(u32::from_le_bytes(b[0..4].try_into().unwrap()), u32::from_le_bytes(b[4..8].try_into().unwrap()), u32::from_le_bytes(b[8..12].try_into().unwrap()))
			}
		};
		self.depth -= 1;
		Ok(v)
	}
}

fn zero_size_possible(env: &Env, s: &MSchema) -> bool {
	let r = env.resolve(s);
	match &r.ty {
		MType::Null => true,
		MType::Fixed { size, .. } => *size == 0,
		MType::Record { fields, .. } => fields.iter().all(|(_, f)| match &f.ty {
			MType::Ref(_) => false, // conservative (also avoids cycles)
			_ => zero_size_possible(env, f),
		}),
		_ => false,
	}
}

pub fn from_twos_complement(b: &[u8]) -> Result<i128, String> {
	if b.is_empty() {
		return Ok(0);
	}
	let neg = b[0] & 0x80 != 0;
	// strip redundant sign bytes, then must fit 16 bytes
	let mut s = b;
	while s.len() > 16 {
		let fill = if neg { 0xff } else { 0 };
		if s[0] == fill && ((s[1] & 0x80 != 0) == neg) {
			s = &s[1..];
		} else {
			return Err("decimal wider than 128 bits".into());
		}
	}
	let mut buf = if neg { [0xffu8; 16] } else { [0u8; 16] };
	buf[16 - s.len()..].copy_from_slice(s);
	Ok(i128::from_be_bytes(buf))
}

pub fn decode_strict(env: &Env, s: &MSchema, data: &[u8]) -> Result<(MValue, usize), String> {
	let mut d = Dec::new(data);
	let v = d.decode(env, s)?;
	Ok((v, d.pos))
}

/// Maximum nesting depth (in the crate's accounting: arrays, maps, unions, records
/// each count one level) reached by a value
pub fn value_depth(env: &Env, s: &MSchema, v: &MValue) -> usize {
	let r = env.resolve(s);
	match (&r.ty, v) {
		(MType::Array(i), MValue::Array(items)) => 1 + items.iter().map(|x| value_depth(env, i, x)).max().unwrap_or(0),
		(MType::Map(i), MValue::Map(items)) => 1 + items.iter().map(|(_, x)| value_depth(env, i, x)).max().unwrap_or(0),
		(MType::Union(bs), MValue::Union(i, inner)) => 1 + value_depth(env, &bs[*i], inner),
		(MType::Record { fields, .. }, MValue::Record(vals)) => 1 + fields.iter().zip(vals).map(|((_, f), x)| value_depth(env, f, x)).max().unwrap_or(0),
		_ => 0,
	}
}
