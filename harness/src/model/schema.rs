//! Reference model of Avro schemas, written from the specification.
//! Shares no code with the crate under test.

use crate::tape::Tape;
use std::collections::{BTreeMap, HashMap, HashSet};

#[derive(Clone, Debug, PartialEq, Eq)]
pub enum MLogical {
	Decimal { precision: usize, scale: u32 },
	Uuid,
	Date,
	TimeMillis,
	TimeMicros,
	TimestampMillis,
	TimestampMicros,
	Duration,
	BigDecimal,
	Unknown(String),
}

impl MLogical {
	pub fn name(&self) -> &str {
		match self {
			MLogical::Decimal { .. } => "decimal",
			MLogical::Uuid => "uuid",
			MLogical::Date => "date",
			MLogical::TimeMillis => "time-millis",
			MLogical::TimeMicros => "time-micros",
			MLogical::TimestampMillis => "timestamp-millis",
			MLogical::TimestampMicros => "timestamp-micros",
			MLogical::Duration => "duration",
			MLogical::BigDecimal => "big-decimal",
			MLogical::Unknown(s) => s,
		}
	}
}

#[derive(Clone, Debug, PartialEq, Eq)]
pub enum MType {
	Null,
	Boolean,
	Int,
	Long,
	Float,
	Double,
	Bytes,
	String,
	Array(Box<MSchema>),
	Map(Box<MSchema>),
	Union(Vec<MSchema>),
	Record { name: String, fields: Vec<(String, MSchema)> },
	Enum { name: String, symbols: Vec<String> },
	Fixed { name: String, size: usize },
	/// second and later occurrences of a named type, by fullname
	Ref(String),
}

#[derive(Clone, Debug, PartialEq, Eq)]
pub struct MSchema {
	pub ty: MType,
	pub logical: Option<MLogical>,
}

impl MSchema {
	pub fn plain(ty: MType) -> Self {
		MSchema { ty, logical: None }
	}
	pub fn with(ty: MType, l: MLogical) -> Self {
		MSchema { ty, logical: Some(l) }
	}
	pub fn fullname(&self) -> Option<&str> {
		match &self.ty {
			MType::Record { name, .. } | MType::Enum { name, .. } | MType::Fixed { name, .. } => Some(name),
			MType::Ref(n) => Some(n),
			_ => None,
		}
	}
}

/// Effective kind of a node: what the binary encoding and the crate's typed
/// behaviour depend on. A logical type on a carrier it is not defined for is
/// ignored (spec: "must ignore"), so the node behaves as its underlying type.
#[derive(Clone, Debug, PartialEq, Eq)]
pub enum Kind {
	Null,
	Boolean,
	Int,
	Long,
	Float,
	Double,
	Bytes,
	String,
	Array,
	Map,
	Union,
	Record,
	Enum,
	Fixed(usize),
	DecimalBytes { scale: u32 },
	DecimalFixed { scale: u32, size: usize },
	BigDecimal,
	Uuid,
	Date,
	TimeMillis,
	TimeMicros,
	TimestampMillis,
	TimestampMicros,
	Duration,
}

pub fn split_fullname(full: &str) -> (Option<&str>, &str) {
	match full.rfind('.') {
		Some(i) => (Some(&full[..i]), &full[i + 1..]),
		None => (None, full),
	}
}

/// Definitions by fullname
pub struct Env<'a> {
	pub defs: HashMap<&'a str, &'a MSchema>,
}

impl<'a> Env<'a> {
	pub fn new(root: &'a MSchema) -> Self {
		let mut defs = HashMap::new();
		fn walk<'a>(s: &'a MSchema, defs: &mut HashMap<&'a str, &'a MSchema>) {
			match &s.ty {
				MType::Array(i) | MType::Map(i) => walk(i, defs),
				MType::Union(bs) => bs.iter().for_each(|b| walk(b, defs)),
				MType::Record { name, fields } => {
					defs.insert(name.as_str(), s);
					fields.iter().for_each(|(_, f)| walk(f, defs));
				}
				MType::Enum { name, .. } | MType::Fixed { name, .. } => {
					defs.insert(name.as_str(), s);
				}
				_ => {}
			}
		}
		walk(root, &mut defs);
		Env { defs }
	}
	pub fn resolve<'b>(&'b self, s: &'b MSchema) -> &'b MSchema {
		match &s.ty {
			MType::Ref(n) => {
				let r: &'b MSchema = self.defs.get(n.as_str()).copied().unwrap_or_else(|| panic!("model: dangling ref {n}"));
				r
			}
			_ => s,
		}
	}
	pub fn kind(&self, s: &MSchema) -> Kind {
		let s = self.resolve(s);
		kind_of_resolved(s)
	}
}

pub fn kind_of_resolved(s: &MSchema) -> Kind {
	match (&s.ty, &s.logical) {
		(MType::Bytes, Some(MLogical::Decimal { scale, .. })) => Kind::DecimalBytes { scale: *scale },
		(MType::Fixed { size, .. }, Some(MLogical::Decimal { scale, .. })) => Kind::DecimalFixed { scale: *scale, size: *size },
		(MType::String, Some(MLogical::Uuid)) => Kind::Uuid,
		(MType::Int, Some(MLogical::Date)) => Kind::Date,
		(MType::Int, Some(MLogical::TimeMillis)) => Kind::TimeMillis,
		(MType::Long, Some(MLogical::TimeMicros)) => Kind::TimeMicros,
		(MType::Long, Some(MLogical::TimestampMillis)) => Kind::TimestampMillis,
		(MType::Long, Some(MLogical::TimestampMicros)) => Kind::TimestampMicros,
		(MType::Fixed { size: 12, .. }, Some(MLogical::Duration)) => Kind::Duration,
		(MType::Bytes, Some(MLogical::BigDecimal)) => Kind::BigDecimal,
		(MType::Null, _) => Kind::Null,
		(MType::Boolean, _) => Kind::Boolean,
		(MType::Int, _) => Kind::Int,
		(MType::Long, _) => Kind::Long,
		(MType::Float, _) => Kind::Float,
		(MType::Double, _) => Kind::Double,
		(MType::Bytes, _) => Kind::Bytes,
		(MType::String, _) => Kind::String,
		(MType::Array(_), _) => Kind::Array,
		(MType::Map(_), _) => Kind::Map,
		(MType::Union(_), _) => Kind::Union,
		(MType::Record { .. }, _) => Kind::Record,
		(MType::Enum { .. }, _) => Kind::Enum,
		(MType::Fixed { size, .. }, _) => Kind::Fixed(*size),
		(MType::Ref(_), _) => panic!("kind_of_resolved on Ref"),
	}
}

/// The name under which the crate documents a union branch is selected /
/// reported: PascalCase of the type word for unnamed types (logical type word
/// when a logical type applies), fullname for named types.
pub fn branch_name(env: &Env, s: &MSchema) -> String {
	let r = env.resolve(s);
	match kind_of_resolved(r) {
		Kind::Null => "Null".into(),
		Kind::Boolean => "Boolean".into(),
		Kind::Int => "Int".into(),
		Kind::Long => "Long".into(),
		Kind::Float => "Float".into(),
		Kind::Double => "Double".into(),
		Kind::Bytes => "Bytes".into(),
		Kind::String => "String".into(),
		Kind::Array => "Array".into(),
		Kind::Map => "Map".into(),
		Kind::Union => "Union".into(),
		Kind::Record | Kind::Enum | Kind::Fixed(_) | Kind::DecimalFixed { .. } => r.fullname().unwrap().to_string(),
		Kind::DecimalBytes { .. } => "Decimal".into(),
		Kind::BigDecimal => "BigDecimal".into(),
		Kind::Uuid => "Uuid".into(),
		Kind::Date => "Date".into(),
		Kind::TimeMillis => "TimeMillis".into(),
		Kind::TimeMicros => "TimeMicros".into(),
		Kind::TimestampMillis => "TimestampMillis".into(),
		Kind::TimestampMicros => "TimestampMicros".into(),
		Kind::Duration => "Duration".into(),
	}
}

/// Underlying Avro type word, used for the spec rule "unions may not contain
/// more than one schema with the same type, except named types"
pub fn underlying_type_word(s: &MSchema) -> &'static str {
	match &s.ty {
		MType::Null => "null",
		MType::Boolean => "boolean",
		MType::Int => "int",
		MType::Long => "long",
		MType::Float => "float",
		MType::Double => "double",
		MType::Bytes => "bytes",
		MType::String => "string",
		MType::Array(_) => "array",
		MType::Map(_) => "map",
		MType::Union(_) => "union",
		MType::Record { .. } => "record",
		MType::Enum { .. } => "enum",
		MType::Fixed { .. } => "fixed",
		MType::Ref(_) => "ref",
	}
}

// ---------------------------------------------------------------------------
// Generation
// ---------------------------------------------------------------------------

#[derive(Clone)]
pub struct GenCfg {
	pub max_depth: usize,
	pub max_nodes: usize,
	/// allow logical types
	pub logical: bool,
	/// allow decimals beyond 16 bytes (only where the property covers them)
	pub wide_decimals: bool,
	/// allow namespaces
	pub namespaces: bool,
	/// allow logical types on carriers they are not defined for (ignored per spec)
	pub misplaced_logical: bool,
	/// allow zero-sized fixed
	pub allow_unknown_logical: bool,
	/// restrict names to ones that are legal static identifiers in any position
	pub weird_names: bool,
	/// names, field names and symbols are long random identifiers (C08 table coverage)
	pub long_names: bool,
	/// at most one union per schema may be padded to 65-100+ branches
	pub wide_unions: bool,
}

impl Default for GenCfg {
	fn default() -> Self {
		GenCfg {
			max_depth: 5,
			max_nodes: 40,
			logical: true,
			wide_decimals: false,
			namespaces: true,
			misplaced_logical: true,
			allow_unknown_logical: true,
			weird_names: true,
			long_names: false,
			wide_unions: true,
		}
	}
}

const SIMPLE_NAMES: &[&str] = &["A", "B", "C", "R", "E", "F", "X", "Y", "Rec", "Node", "T1", "_u", "Z9"];
// (names equal to a complex type *word* - record, enum, array, map, fixed - are not generated: a bare
// JSON string with that spelling is ambiguous between the keyword and a reference)
const WEIRD_NAMES: &[&str] = &["String", "Array", "Int", "Duration", "Null", "Decimal", "Map", "Bytes", "Record", "Uuid"];
const NAMESPACES: &[Option<&str>] = &[None, Some("a"), Some("a.b"), Some("b"), Some("n_1")];
const FIELD_NAMES: &[&str] = &["a", "b", "c", "d", "e", "f", "g", "h", "next", "value", "months", "days", "type", "name"];
const SYMBOLS: &[&str] = &["S0", "S1", "S2", "S3", "RED", "GREEN", "a", "b", "Null", "String"];

pub struct SchemaGen<'t, 'd> {
	pub tape: &'t mut Tape<'d>,
	pub cfg: GenCfg,
	nodes: usize,
	used_names: HashSet<String>,
	/// fullname -> (is record)
	closed: Vec<String>,
	/// open records: (fullname, escape)
	open: Vec<(String, bool)>,
	forbid_open: bool,
	/// record fullname -> names referenced (by Ref) anywhere inside its definition
	direct: HashMap<String, Vec<String>>,
	collecting: Vec<Vec<String>>,
	/// fixed(12)+duration definitions: the crate selects/reports them as "Duration"
	duration_names: HashSet<String>,
	wide_done: bool,
}

impl<'t, 'd> SchemaGen<'t, 'd> {
	pub fn new(tape: &'t mut Tape<'d>, cfg: GenCfg) -> Self {
		SchemaGen { tape, cfg, nodes: 0, used_names: HashSet::new(), closed: Vec::new(), open: Vec::new(), forbid_open: false, direct: HashMap::new(), collecting: Vec::new(), duration_names: HashSet::new(), wide_done: false }
	}

	pub fn gen(&mut self) -> MSchema {
		self.gen_at(0, false)
	}

	fn random_ident(&mut self) -> String {
		const FIRST: &[u8] = b"ABCDEFGHIJKLMNOPQRSTUVWXYZabcdefghijklmnopqrstuvwxyz_";
		const REST: &[u8] = b"ABCDEFGHIJKLMNOPQRSTUVWXYZabcdefghijklmnopqrstuvwxyz_0123456789";
		let n = 1 + self.tape.below(24);
		let mut s = String::new();
		s.push(*self.tape.pick(FIRST) as char);
		for _ in 1..n {
			s.push(*self.tape.pick(REST) as char);
		}
		s
	}

	fn fresh_name(&mut self) -> String {
		if self.cfg.long_names {
			let simple = self.random_ident();
			let ns = if self.tape.bool() { Some(format!("{}.{}", self.random_ident(), self.random_ident())) } else { None };
			let mut full = match &ns {
				Some(ns) => format!("{ns}.{simple}"),
				None => simple.clone(),
			};
			while self.used_names.contains(&full) || ["null", "boolean", "int", "long", "float", "double", "bytes", "string", "record", "enum", "array", "map", "fixed"].contains(&full.as_str()) {
				full.push('x');
			}
			self.used_names.insert(full.clone());
			return full;
		}
		let simple = if self.cfg.weird_names && self.tape.chance(40) {
			*self.tape.pick(WEIRD_NAMES)
		} else {
			*self.tape.pick(SIMPLE_NAMES)
		};
		let ns = if self.cfg.namespaces { *self.tape.pick(NAMESPACES) } else { None };
		let mut full = match ns {
			Some(ns) => format!("{ns}.{simple}"),
			None => simple.to_string(),
		};
		let mut k = 0;
		while self.used_names.contains(&full) {
			k += 1;
			full = match ns {
				Some(ns) => format!("{ns}.{simple}{k}"),
				None => format!("{simple}{k}"),
			};
		}
		self.used_names.insert(full.clone());
		full
	}

	fn gen_primitive(&mut self) -> MSchema {
		let t = &mut *self.tape;
		let ty = match t.below(8) {
			0 => MType::Null,
			1 => MType::Boolean,
			2 => MType::Int,
			3 => MType::Long,
			4 => MType::Float,
			5 => MType::Double,
			6 => MType::Bytes,
			_ => MType::String,
		};
		let mut s = MSchema::plain(ty);
		if self.cfg.logical && self.tape.chance(90) {
			self.decorate_logical(&mut s);
		}
		s
	}

	fn decimal_params(&mut self, max_bytes: Option<usize>) -> MLogical {
		// precision is informational for the crate; keep it spec-valid (>0) and
		// consistent with size for fixed; scale <= 28 (documented 96-bit mantissa limit)
		let max_prec = match max_bytes {
			Some(n) => {
				// floor(log10(2^(8n-1) - 1))
				let bits = (8 * n).saturating_sub(1) as f64;
				((bits * std::f64::consts::LOG10_2).floor() as usize).max(1)
			}
			None => 38,
		};
		let precision = match self.tape.below(4) {
			0 => max_prec,
			_ => self.tape.range(1, max_prec),
		};
		let max_scale = precision.min(28);
		let scale = match self.tape.below(6) {
			0 => 0,
			1 => 1,
			2 => 2,
			3 => self.tape.below(10),
			4 => self.tape.below(29),
			_ => 28,
		}
		.min(max_scale) as u32;
		MLogical::Decimal { precision, scale }
	}

	fn decorate_logical(&mut self, s: &mut MSchema) {
		let l = match &s.ty {
			MType::Bytes => match self.tape.below(3) {
				0 => Some(self.decimal_params(None)),
				1 => Some(MLogical::BigDecimal),
				_ => None,
			},
			MType::String => Some(MLogical::Uuid),
			MType::Int => Some(if self.tape.bool() { MLogical::Date } else { MLogical::TimeMillis }),
			MType::Long => Some(match self.tape.below(3) {
				0 => MLogical::TimeMicros,
				1 => MLogical::TimestampMillis,
				_ => MLogical::TimestampMicros,
			}),
			_ => None,
		};
		let l = match l {
			Some(l) => Some(l),
			None => {
				if self.cfg.allow_unknown_logical && self.tape.chance(128) {
					Some(MLogical::Unknown((*self.tape.pick(&["custom", "my-type", "varchar"])).to_string()))
				} else if self.cfg.misplaced_logical && self.tape.chance(64) {
					// a known logical type on a carrier it is not defined for: ignored per spec
					match &s.ty {
						MType::Float | MType::Double | MType::Boolean | MType::Null => Some(self.tape.pick(&[MLogical::Date, MLogical::Uuid, MLogical::TimestampMillis, MLogical::BigDecimal, MLogical::Duration]).clone()),
						_ => None,
					}
				} else {
					None
				}
			}
		};
		s.logical = l;
	}

	fn gen_at(&mut self, depth: usize, in_union: bool) -> MSchema {
		self.nodes += 1;
		let budget_left = self.nodes < self.cfg.max_nodes && depth < self.cfg.max_depth;
		if !budget_left {
			return self.gen_primitive();
		}
		// choice weights: primitives 40%, complex 60%
		// the root is biased towards complex types
		let c = if depth == 0 && self.tape.chance(200) { 6 + self.tape.below(10) } else { self.tape.below(if in_union { 15 } else { 16 }) };
		match c {
			0..=5 => self.gen_primitive(),
			6 | 7 => {
				let inner = self.with_escape(|g| g.gen_at(depth + 1, false));
				let mut s = MSchema::plain(MType::Array(Box::new(inner)));
				self.maybe_unknown_logical(&mut s);
				s
			}
			8 => {
				let inner = self.with_escape(|g| g.gen_at(depth + 1, false));
				let mut s = MSchema::plain(MType::Map(Box::new(inner)));
				self.maybe_unknown_logical(&mut s);
				s
			}
			9 | 10 => self.gen_record(depth),
			11 => self.gen_enum(),
			12 => self.gen_fixed(),
			13 | 14 => self.gen_ref().unwrap_or_else(|| self.gen_primitive()),
			_ => self.gen_union(depth),
		}
	}

	fn maybe_unknown_logical(&mut self, s: &mut MSchema) {
		if self.cfg.logical && self.cfg.allow_unknown_logical && self.tape.chance(16) {
			s.logical = Some(MLogical::Unknown("custom".into()));
		}
	}

	fn with_escape<T>(&mut self, f: impl FnOnce(&mut Self) -> T) -> T {
		let saved: Vec<bool> = self.open.iter().map(|o| o.1).collect();
		for o in &mut self.open {
			o.1 = true;
		}
		let r = f(self);
		for (o, s) in self.open.iter_mut().zip(saved) {
			o.1 = s;
		}
		r
	}

	/// May `name` (a closed named type) be referenced here without creating a
	/// record that contains itself without an escape (array/map/later union branch)?
	fn closed_ref_ok(&self, name: &str) -> bool {
		let mut stack = vec![name.to_string()];
		let mut seen: HashSet<String> = HashSet::new();
		while let Some(n) = stack.pop() {
			if !seen.insert(n.clone()) {
				continue;
			}
			if let Some(o) = self.open.iter().find(|o| o.0 == n) {
				if !o.1 || self.forbid_open {
					return false;
				}
			}
			if let Some(d) = self.direct.get(&n) {
				stack.extend(d.iter().cloned());
			}
		}
		true
	}

	fn gen_ref(&mut self) -> Option<MSchema> {
		let mut candidates: Vec<String> = self.closed.iter().filter(|c| self.closed_ref_ok(c)).cloned().collect();
		if !self.forbid_open {
			candidates.extend(self.open.iter().filter(|o| o.1).map(|o| o.0.clone()));
		}
		if candidates.is_empty() {
			return None;
		}
		let n = self.tape.pick(&candidates).clone();
		for c in &mut self.collecting {
			c.push(n.clone());
		}
		Some(MSchema::plain(MType::Ref(n)))
	}

	fn gen_record(&mut self, depth: usize) -> MSchema {
		let name = self.fresh_name();
		let nfields = self.tape.small(6);
		self.open.push((name.clone(), false));
		self.collecting.push(Vec::new());
		let mut fields = Vec::new();
		let mut used: HashSet<String> = HashSet::new();
		for _ in 0..nfields {
			let mut fname: String = (*self.tape.pick(FIELD_NAMES)).to_string();
			if self.cfg.long_names {
				fname = self.random_ident();
			}
			if used.contains(&fname) {
				// find an unused one deterministically
				match FIELD_NAMES.iter().find(|n| !used.contains(**n)) {
					Some(n) => fname = n.to_string(),
					None => break,
				}
			}
			used.insert(fname.clone());
			let fs = self.gen_at(depth + 1, false);
			fields.push((fname, fs));
		}
		self.open.pop();
		let refs = self.collecting.pop().unwrap_or_default();
		self.direct.insert(name.clone(), refs);
		self.closed.push(name.clone());
		let mut s = MSchema::plain(MType::Record { name, fields });
		self.maybe_unknown_logical(&mut s);
		s
	}

	fn gen_enum(&mut self) -> MSchema {
		let name = self.fresh_name();
		let n = 1 + self.tape.small(6);
		let mut symbols: Vec<String> = Vec::new();
		for _ in 0..n {
			let mut s = (*self.tape.pick(SYMBOLS)).to_string();
			if self.cfg.long_names {
				s = self.random_ident();
			}
			let mut k = 0;
			while symbols.contains(&s) {
				k += 1;
				s = format!("S_{k}");
			}
			symbols.push(s);
		}
		self.closed.push(name.clone());
		let mut s = MSchema::plain(MType::Enum { name, symbols });
		self.maybe_unknown_logical(&mut s);
		s
	}

	fn gen_fixed(&mut self) -> MSchema {
		let name = self.fresh_name();
		let mode = if self.cfg.logical { self.tape.below(4) } else { 3 };
		self.closed.push(name.clone());
		match mode {
			0 => {
				// decimal on fixed
				let size = if self.cfg.wide_decimals && self.tape.chance(32) { self.tape.range(17, 24) } else { self.tape.range(1, 16) };
				let l = self.decimal_params(Some(size));
				MSchema::with(MType::Fixed { name, size }, l)
			}
			1 => {
				self.duration_names.insert(name.clone());
				MSchema::with(MType::Fixed { name, size: 12 }, MLogical::Duration)
			}
			_ => {
				let size = match self.tape.below(6) {
					0 => 0,
					1 => 1,
					2 => 12,
					3 => 16,
					4 => self.tape.below(40),
					_ => self.tape.below(300),
				};
				let mut s = MSchema::plain(MType::Fixed { name, size });
				if self.cfg.logical && self.cfg.misplaced_logical && self.tape.chance(24) && size != 12 {
					// duration on a fixed of the wrong size: ignored
					s.logical = Some(MLogical::Duration);
				}
				s
			}
		}
	}

	fn gen_union(&mut self, depth: usize) -> MSchema {
		let n = 1 + self.tape.small(5);
		let mut branches: Vec<MSchema> = Vec::new();
		let mut words: HashSet<String> = HashSet::new();
		let mut names: HashSet<String> = HashSet::new();
		for i in 0..n {
			// branch 0 never refers to an open record, so every type has a finite value
			let saved_forbid = self.forbid_open;
			if i == 0 {
				self.forbid_open = true;
			}
			let b = if i == 0 && self.tape.chance(140) {
				self.nodes += 1;
				MSchema::plain(MType::Null)
			} else if i == 0 {
				self.gen_at(depth + 1, true)
			} else {
				self.with_escape(|g| g.gen_at(depth + 1, true))
			};
			self.forbid_open = saved_forbid;
			// spec: at most one branch per unnamed underlying type; named types distinct by fullname
			let word = match b.fullname() {
				Some(n) => format!("named:{n}"),
				None => underlying_type_word(&b).to_string(),
			};
			if words.contains(&word) {
				// cannot drop a definition silently if it defined names used later: only
				// Ref / primitives are safely droppable; for definitions keep names consistent
				self.undefine(&b);
				continue;
			}
			// branch names must be pairwise distinct for by-name selection to be well defined
			let bname = self.branch_name_of(&b);
			if names.contains(&bname) {
				self.undefine(&b);
				continue;
			}
			words.insert(word);
			names.insert(bname);
			// sometimes add a "twin": same structure under another name, so that
			// type-directed selection is genuinely ambiguous (C02)
			let twin = if self.tape.chance(28) { self.twin_of(&b) } else { None };
			branches.push(b);
			if let Some(tw) = twin {
				let tn = tw.fullname().unwrap().to_string();
				if names.contains(&tn) {
					self.undefine(&tw);
				} else {
					words.insert(format!("named:{tn}"));
					names.insert(tn);
					branches.push(tw);
				}
			}
		}
		if branches.is_empty() {
			branches.push(MSchema::plain(MType::Null));
		}
		// rarely a *wide* union: 64-100 small fixed types in front, so that the real branches get
		// discriminants >= 64, whose zig-zag varint needs two bytes (an exhausted tape never draws this)
		// (decided from what was drawn anyway, so that tapes recorded before keep their meaning)
		if self.cfg.wide_unions && !self.wide_done && branches.len() >= 4 && crate::tape::fnv64(names.iter().cloned().collect::<std::collections::BTreeSet<_>>().into_iter().collect::<Vec<_>>().join("|").as_bytes()) % 3 == 0 {
			self.wide_done = true;
			let pad = 64 + self.tape.below(37);
			let mut front: Vec<MSchema> = Vec::with_capacity(pad + branches.len());
			for i in 0..pad {
				let mut name = format!("Wide{i}");
				while self.used_names.contains(&name) || names.contains(&name) {
					name.push('w');
				}
				self.used_names.insert(name.clone());
				self.closed.push(name.clone());
				front.push(MSchema::plain(MType::Fixed { name, size: i % 3 }));
			}
			front.append(&mut branches);
			branches = front;
		}
		MSchema::plain(MType::Union(branches))
	}

	fn twin_of(&mut self, s: &MSchema) -> Option<MSchema> {
		if s.logical.is_some() {
			return None;
		}
		match &s.ty {
			MType::Record { fields, .. } => {
				// only when the fields define no named types themselves
				let mut defs = Vec::new();
				fields.iter().for_each(|(_, f)| collect_defs(f, &mut defs));
				if !defs.is_empty() || fields.is_empty() {
					return None;
				}
				let name = self.fresh_name();
				self.direct.insert(name.clone(), Vec::new());
				// conservative: the twin may only be referenced where the original may; do
				// not make it referenceable at all
				Some(MSchema::plain(MType::Record { name, fields: fields.clone() }))
			}
			MType::Enum { symbols, .. } => {
				let name = self.fresh_name();
				Some(MSchema::plain(MType::Enum { name, symbols: symbols.clone() }))
			}
			MType::Fixed { size, .. } => {
				let name = self.fresh_name();
				Some(MSchema::plain(MType::Fixed { name, size: *size }))
			}
			_ => None,
		}
	}

	/// When a generated sub-schema is discarded, forget the names it defined.
	fn undefine(&mut self, s: &MSchema) {
		let mut names = Vec::new();
		collect_defs(s, &mut names);
		for n in names {
			self.used_names.remove(&n);
			self.direct.remove(&n);
			self.closed.retain(|c| *c != n);
		}
	}

	fn branch_name_of(&self, s: &MSchema) -> String {
		match &s.ty {
			MType::Ref(n) | MType::Fixed { name: n, .. } if self.duration_names.contains(n) => "Duration".to_string(),
			MType::Ref(n) => n.clone(),
			MType::Record { name, .. } | MType::Enum { name, .. } | MType::Fixed { name, .. } => name.clone(),
			_ => {
				// unnamed: same rule as branch_name on a resolved node
				let env = Env { defs: HashMap::new() };
				branch_name(&env, s)
			}
		}
	}
}

pub fn collect_defs(s: &MSchema, out: &mut Vec<String>) {
	match &s.ty {
		MType::Array(i) | MType::Map(i) => collect_defs(i, out),
		MType::Union(bs) => bs.iter().for_each(|b| collect_defs(b, out)),
		MType::Record { name, fields } => {
			out.push(name.clone());
			fields.iter().for_each(|(_, f)| collect_defs(f, out));
		}
		MType::Enum { name, .. } | MType::Fixed { name, .. } => out.push(name.clone()),
		_ => {}
	}
}

pub fn count_nodes(s: &MSchema) -> usize {
	1 + match &s.ty {
		MType::Array(i) | MType::Map(i) => count_nodes(i),
		MType::Union(bs) => bs.iter().map(count_nodes).sum(),
		MType::Record { fields, .. } => fields.iter().map(|(_, f)| count_nodes(f)).sum(),
		_ => 0,
	}
}

/// Feature labels of a schema (for coverage histograms and non-triviality rules)
#[derive(Default, Debug, Clone)]
pub struct SchemaFeatures {
	pub unions_multi: usize,
	pub logical: usize,
	pub refs: usize,
	pub recursive: bool,
	pub depth: usize,
	pub named: usize,
	pub namespaces: HashSet<String>,
	pub kinds: HashSet<&'static str>,
}

pub fn features(root: &MSchema) -> SchemaFeatures {
	fn walk(s: &MSchema, depth: usize, open: &mut Vec<String>, f: &mut SchemaFeatures) {
		f.depth = f.depth.max(depth);
		f.kinds.insert(underlying_type_word(s));
		if let Some(l) = &s.logical {
			if !matches!(l, MLogical::Unknown(_)) {
				f.logical += 1;
			}
		}
		match &s.ty {
			MType::Array(i) | MType::Map(i) => walk(i, depth + 1, open, f),
			MType::Union(bs) => {
				if bs.iter().filter(|b| !matches!(b.ty, MType::Null)).count() >= 2 {
					f.unions_multi += 1;
				}
				if bs.len() > 64 {
					f.kinds.insert("union-wider-than-64");
				}
				bs.iter().for_each(|b| walk(b, depth + 1, open, f));
			}
			MType::Record { name, fields } => {
				f.named += 1;
				f.namespaces.insert(split_fullname(name).0.unwrap_or("").to_string());
				open.push(name.clone());
				fields.iter().for_each(|(_, fs)| walk(fs, depth + 1, open, f));
				open.pop();
			}
			MType::Enum { name, .. } | MType::Fixed { name, .. } => {
				f.named += 1;
				f.namespaces.insert(split_fullname(name).0.unwrap_or("").to_string());
			}
			MType::Ref(n) => {
				f.refs += 1;
				if open.contains(n) {
					f.recursive = true;
				}
			}
			_ => {}
		}
	}
	let mut f = SchemaFeatures::default();
	walk(root, 0, &mut Vec::new(), &mut f);
	f
}

// ---------------------------------------------------------------------------
// JSON spelling
// ---------------------------------------------------------------------------

pub fn json_str(s: &str) -> String {
	let mut o = String::with_capacity(s.len() + 2);
	o.push('"');
	for c in s.chars() {
		match c {
			'"' => o.push_str("\\\""),
			'\\' => o.push_str("\\\\"),
			'\n' => o.push_str("\\n"),
			'\r' => o.push_str("\\r"),
			'\t' => o.push_str("\\t"),
			c if (c as u32) < 0x20 => o.push_str(&format!("\\u{:04x}", c as u32)),
			c => o.push(c),
		}
	}
	o.push('"');
	o
}

/// Options for the speller; `None` tape => plain canonical-ish spelling
pub struct Speller<'t, 'd> {
	pub tape: Option<&'t mut Tape<'d>>,
	/// extra attributes, whitespace, attribute order permutations
	pub noise: bool,
	/// labels of spelling features used
	pub used: HashSet<&'static str>,
	/// allow leaving out a decimal's `scale` when it is 0
	pub omit_zero_scale: bool,
	/// allow `"name": ".X"` for definitions in the null namespace
	pub leading_dot_definitions: bool,
}

impl<'t, 'd> Speller<'t, 'd> {
	pub fn plain() -> Speller<'static, 'static> {
		Speller { tape: None, noise: false, used: HashSet::new(), omit_zero_scale: false, leading_dot_definitions: false }
	}
	pub fn with_tape(tape: &'t mut Tape<'d>, noise: bool) -> Self {
		Speller { tape: Some(tape), noise, used: HashSet::new(), omit_zero_scale: true, leading_dot_definitions: true }
	}
	fn below(&mut self, n: usize) -> usize {
		match &mut self.tape {
			Some(t) => t.below(n),
			None => 0,
		}
	}
	fn chance(&mut self, num: u32) -> bool {
		match &mut self.tape {
			Some(t) => t.chance(num),
			None => false,
		}
	}
	fn ws(&mut self) -> &'static str {
		if !self.noise {
			return "";
		}
		match self.below(8) {
			0..=4 => "",
			5 => " ",
			6 => "\n\t",
			_ => "  \r\n ",
		}
	}

	pub fn spell(&mut self, s: &MSchema) -> String {
		self.spell_in(s, None)
	}

	/// `enclosing`: the namespace in effect at this position
	fn spell_in(&mut self, s: &MSchema, enclosing: Option<&str>) -> String {
		match &s.ty {
			MType::Ref(full) => {
				let (ns, simple) = split_fullname(full);
				if ns == enclosing && self.below(2) == 0 {
					self.used.insert("ref-simple");
					json_str(simple)
				} else if ns.is_none() {
					if enclosing.is_none() {
						json_str(simple)
					} else {
						// null-namespace type referenced from inside a namespace: the
						// leading-dot form the crate documents
						self.used.insert("ref-leading-dot");
						json_str(&format!(".{simple}"))
					}
				} else {
					self.used.insert("ref-full");
					json_str(full)
				}
			}
			MType::Union(bs) => {
				let mut o = String::from("[");
				for (i, b) in bs.iter().enumerate() {
					if i > 0 {
						o.push(',');
					}
					o.push_str(self.ws());
					o.push_str(&self.spell_in(b, enclosing));
					o.push_str(self.ws());
				}
				o.push(']');
				o
			}
			_ => {
				// primitives without logical type may be bare strings
				let word = underlying_type_word(s);
				let is_prim = matches!(s.ty, MType::Null | MType::Boolean | MType::Int | MType::Long | MType::Float | MType::Double | MType::Bytes | MType::String);
				if is_prim && s.logical.is_none() && self.below(4) != 3 {
					return json_str(word);
				}
				if is_prim && s.logical.is_none() {
					self.used.insert("prim-object");
				}
				// collect attributes as (key, json) then order
				let mut attrs: Vec<(String, String)> = Vec::new();
				attrs.push(("type".into(), json_str(word)));
				let mut child_ns = enclosing.map(|s| s.to_string());
				if let Some(full) = match &s.ty {
					MType::Record { name, .. } | MType::Enum { name, .. } | MType::Fixed { name, .. } => Some(name),
					_ => None,
				} {
					let (ns, simple) = split_fullname(full);
					child_ns = ns.map(|s| s.to_string());
					// ways to spell the fullname
					let mode = self.below(4);
					if ns == enclosing && mode <= 1 {
						// inherited
						self.used.insert("name-inherited");
						attrs.push(("name".into(), json_str(simple)));
						if mode == 1 && ns.is_some() {
							// redundant explicit namespace
							attrs.push(("namespace".into(), json_str(ns.unwrap())));
						}
					} else if ns.is_none() {
						// must restore null namespace if enclosing is some
						if self.leading_dot_definitions && self.below(4) == 0 {
							// a dotted name whose namespace part is empty designates the null namespace
							self.used.insert("name-leading-dot");
							attrs.push(("name".into(), json_str(&format!(".{simple}"))));
						} else if enclosing.is_some() {
							self.used.insert("ns-empty-reset");
							attrs.push(("name".into(), json_str(simple)));
							attrs.push(("namespace".into(), json_str("")));
						} else {
							attrs.push(("name".into(), json_str(simple)));
							if mode == 3 {
								self.used.insert("ns-empty-redundant");
								attrs.push(("namespace".into(), json_str("")));
							}
						}
					} else if mode == 2 {
						self.used.insert("ns-attribute");
						attrs.push(("name".into(), json_str(simple)));
						attrs.push(("namespace".into(), json_str(ns.unwrap())));
					} else {
						self.used.insert("name-dotted");
						attrs.push(("name".into(), json_str(full)));
						if mode == 3 {
							// a namespace attribute is ignored when the name is dotted
							self.used.insert("dotted-overrides-ns-attr");
							attrs.push(("namespace".into(), json_str("ignored.ns")));
						}
					}
				}
				match &s.ty {
					MType::Array(i) => {
						let c = self.spell_in(i, enclosing);
						attrs.push(("items".into(), c));
					}
					MType::Map(v) => {
						let c = self.spell_in(v, enclosing);
						attrs.push(("values".into(), c));
					}
					MType::Record { fields, .. } => {
						let mut o = String::from("[");
						for (i, (fname, fs)) in fields.iter().enumerate() {
							if i > 0 {
								o.push(',');
							}
							o.push_str(self.ws());
							let ftype = self.spell_in(fs, child_ns.as_deref());
							let mut fattrs = vec![("name".to_string(), json_str(fname)), ("type".to_string(), ftype)];
							if self.noise {
								if self.chance(40) {
									fattrs.push(("doc".into(), json_str("a \"field\" \\ doc\n")));
								}
								if self.chance(30) {
									fattrs.push(("default".into(), "null".into()));
								}
								if self.chance(30) {
									fattrs.push(("order".into(), json_str("ignore")));
								}
								if self.chance(30) {
									fattrs.push(("aliases".into(), "[\"old\"]".into()));
								}
								if self.chance(20) {
									fattrs.push(("x-custom".into(), "{\"k\":[1,2.5,true,null]}".into()));
								}
								self.permute(&mut fattrs);
							}
							o.push_str(&self.obj(&fattrs));
						}
						o.push(']');
						attrs.push(("fields".into(), o));
					}
					MType::Enum { symbols, .. } => {
						let mut o = String::from("[");
						for (i, sy) in symbols.iter().enumerate() {
							if i > 0 {
								o.push(',');
							}
							o.push_str(self.ws());
							o.push_str(&json_str(sy));
						}
						o.push(']');
						attrs.push(("symbols".into(), o));
					}
					MType::Fixed { size, .. } => attrs.push(("size".into(), size.to_string())),
					_ => {}
				}
				if let Some(l) = &s.logical {
					attrs.push(("logicalType".into(), json_str(l.name())));
					if let MLogical::Decimal { precision, scale } = l {
						attrs.push(("precision".into(), precision.to_string()));
						if *scale == 0 && self.omit_zero_scale && self.below(2) == 1 {
							// scale is optional and defaults to 0 (specification, Decimal)
							self.used.insert("decimal-scale-omitted");
						} else {
							attrs.push(("scale".into(), scale.to_string()));
						}
					}
				}
				if self.noise {
					if self.chance(40) {
						attrs.push(("doc".into(), json_str("doc \u{e9}\u{4e16} text")));
					}
					if self.chance(25) && matches!(s.ty, MType::Record { .. } | MType::Enum { .. } | MType::Fixed { .. }) {
						attrs.push(("aliases".into(), "[\"Old\",\"ns.Older\"]".into()));
					}
					if self.chance(20) && matches!(s.ty, MType::Enum { .. }) {
						if let MType::Enum { symbols, .. } = &s.ty {
							attrs.push(("default".into(), json_str(&symbols[0])));
						}
					}
					if self.chance(20) {
						attrs.push(("customProp".into(), "{\"nested\":{\"type\":\"not-a-type\"},\"n\":-1.5e3}".into()));
					}
					self.permute(&mut attrs);
				}
				self.obj(&attrs)
			}
		}
	}

	fn permute(&mut self, v: &mut Vec<(String, String)>) {
		// Fisher-Yates driven by the tape
		if v.len() < 2 {
			return;
		}
		for i in (1..v.len()).rev() {
			let j = self.below(i + 1);
			if j != i {
				self.used.insert("attr-order");
			}
			v.swap(i, j);
		}
	}

	fn obj(&mut self, attrs: &[(String, String)]) -> String {
		let mut o = String::from("{");
		for (i, (k, v)) in attrs.iter().enumerate() {
			if i > 0 {
				o.push(',');
			}
			o.push_str(self.ws());
			o.push_str(&json_str(k));
			o.push_str(self.ws());
			o.push(':');
			o.push_str(self.ws());
			o.push_str(v);
		}
		o.push_str(self.ws());
		o.push('}');
		o
	}
}

pub fn spell_plain(s: &MSchema) -> String {
	Speller::plain().spell(s)
}

// ---------------------------------------------------------------------------
// Parsing Canonical Form (from the specification's transformation list)
// ---------------------------------------------------------------------------

pub fn pcf(s: &MSchema) -> String {
	fn w(s: &MSchema, o: &mut String) {
		match &s.ty {
			MType::Null | MType::Boolean | MType::Int | MType::Long | MType::Float | MType::Double | MType::Bytes | MType::String => {
				o.push('"');
				o.push_str(underlying_type_word(s));
				o.push('"');
			}
			MType::Array(i) => {
				o.push_str("{\"type\":\"array\",\"items\":");
				w(i, o);
				o.push('}');
			}
			MType::Map(v) => {
				o.push_str("{\"type\":\"map\",\"values\":");
				w(v, o);
				o.push('}');
			}
			MType::Union(bs) => {
				o.push('[');
				for (i, b) in bs.iter().enumerate() {
					if i > 0 {
						o.push(',');
					}
					w(b, o);
				}
				o.push(']');
			}
			MType::Record { name, fields } => {
				o.push_str("{\"name\":\"");
				o.push_str(name);
				o.push_str("\",\"type\":\"record\",\"fields\":[");
				for (i, (fname, fs)) in fields.iter().enumerate() {
					if i > 0 {
						o.push(',');
					}
					o.push_str("{\"name\":\"");
					o.push_str(fname);
					o.push_str("\",\"type\":");
					w(fs, o);
					o.push('}');
				}
				o.push_str("]}");
			}
			MType::Enum { name, symbols } => {
				o.push_str("{\"name\":\"");
				o.push_str(name);
				o.push_str("\",\"type\":\"enum\",\"symbols\":[");
				for (i, sy) in symbols.iter().enumerate() {
					if i > 0 {
						o.push(',');
					}
					o.push('"');
					o.push_str(sy);
					o.push('"');
				}
				o.push_str("]}");
			}
			MType::Fixed { name, size } => {
				o.push_str("{\"name\":\"");
				o.push_str(name);
				o.push_str("\",\"type\":\"fixed\",\"size\":");
				o.push_str(&size.to_string());
				o.push('}');
			}
			MType::Ref(n) => {
				o.push('"');
				o.push_str(n);
				o.push('"');
			}
		}
	}
	let mut o = String::new();
	w(s, &mut o);
	o
}

/// CRC-64-AVRO, bit-serial from the polynomial definition (no table).
pub const EMPTY64: u64 = 0xc15d213aa4d7a795;
pub fn crc64_avro(data: &[u8]) -> u64 {
	let mut fp = EMPTY64;
	for &b in data {
		fp ^= b as u64;
		for _ in 0..8 {
			let mask = (fp & 1).wrapping_neg();
			fp = (fp >> 1) ^ (EMPTY64 & mask);
		}
	}
	fp
}
/// Table indices used by a table-driven implementation of the same CRC, for
/// coverage accounting in C08.
pub fn crc64_trace_indices(data: &[u8], seen: &mut [u32; 256]) -> u64 {
	let mut fp = EMPTY64;
	for &b in data {
		let idx = ((fp ^ b as u64) & 0xff) as usize;
		seen[idx] = seen[idx].saturating_add(1);
		fp ^= b as u64;
		for _ in 0..8 {
			let mask = (fp & 1).wrapping_neg();
			fp = (fp >> 1) ^ (EMPTY64 & mask);
		}
	}
	fp
}
pub fn fingerprint(s: &MSchema) -> [u8; 8] {
	crc64_avro(pcf(s).as_bytes()).to_le_bytes()
}

// ---------------------------------------------------------------------------
// Unfolding the crate's node graph into the model AST
// ---------------------------------------------------------------------------

use serde_avro_fast::schema as cs;

pub fn logical_from_crate(l: &cs::LogicalType) -> MLogical {
	match l {
		cs::LogicalType::Decimal(d) => MLogical::Decimal { precision: d.precision, scale: d.scale },
		cs::LogicalType::Uuid => MLogical::Uuid,
		cs::LogicalType::Date => MLogical::Date,
		cs::LogicalType::TimeMillis => MLogical::TimeMillis,
		cs::LogicalType::TimeMicros => MLogical::TimeMicros,
		cs::LogicalType::TimestampMillis => MLogical::TimestampMillis,
		cs::LogicalType::TimestampMicros => MLogical::TimestampMicros,
		cs::LogicalType::Duration => MLogical::Duration,
		cs::LogicalType::BigDecimal => MLogical::BigDecimal,
		other => MLogical::Unknown(other.as_str().to_string()),
	}
}

/// Unfold from the root; named types keyed by fullname (first occurrence in
/// full, then `Ref`). Errors on dangling keys or on a cycle through unnamed
/// nodes only (not expressible as a tree).
pub fn unfold(nodes: &[cs::SchemaNode]) -> Result<MSchema, String> {
	fn go(nodes: &[cs::SchemaNode], idx: usize, seen: &mut BTreeMap<String, usize>, stack: &mut Vec<usize>) -> Result<MSchema, String> {
		let node = nodes.get(idx).ok_or_else(|| format!("dangling key {idx}"))?;
		let logical = node.logical_type.as_ref().map(logical_from_crate);
		if let Some(name) = node.type_.name() {
			let full = name.fully_qualified_name().to_string();
			if let Some(&prev) = seen.get(&full) {
				if prev != idx {
					// two distinct nodes with the same fullname: compare as Ref anyway,
					// callers that care check uniqueness separately
				}
				return Ok(MSchema::plain(MType::Ref(full)));
			}
			seen.insert(full, idx);
		} else {
			// a cycle is inexpressible only if no named node lies on it: look back on the stack
			// up to the innermost named node being expanded (which is written by name from now on)
			for &up in stack.iter().rev() {
				if nodes[up].type_.name().is_some() {
					break;
				}
				if up == idx {
					return Err(format!("cycle through unnamed node {idx}"));
				}
			}
		}
		stack.push(idx);
		let ty = match &node.type_ {
			cs::RegularType::Null => MType::Null,
			cs::RegularType::Boolean => MType::Boolean,
			cs::RegularType::Int => MType::Int,
			cs::RegularType::Long => MType::Long,
			cs::RegularType::Float => MType::Float,
			cs::RegularType::Double => MType::Double,
			cs::RegularType::Bytes => MType::Bytes,
			cs::RegularType::String => MType::String,
			cs::RegularType::Array(a) => MType::Array(Box::new(go(nodes, a.items.idx(), seen, stack)?)),
			cs::RegularType::Map(m) => MType::Map(Box::new(go(nodes, m.values.idx(), seen, stack)?)),
			cs::RegularType::Union(u) => {
				let mut v = Vec::new();
				for k in &u.variants {
					v.push(go(nodes, k.idx(), seen, stack)?);
				}
				MType::Union(v)
			}
			cs::RegularType::Record(r) => {
				let mut fields = Vec::new();
				for f in &r.fields {
					fields.push((f.name.clone(), go(nodes, f.type_.idx(), seen, stack)?));
				}
				MType::Record { name: r.name.fully_qualified_name().to_string(), fields }
			}
			cs::RegularType::Enum(e) => MType::Enum { name: e.name.fully_qualified_name().to_string(), symbols: e.symbols.clone() },
			cs::RegularType::Fixed(f) => MType::Fixed { name: f.name.fully_qualified_name().to_string(), size: f.size },
		};
		stack.pop();
		Ok(MSchema { ty, logical })
	}
	if nodes.is_empty() {
		return Err("empty".into());
	}
	go(nodes, 0, &mut BTreeMap::new(), &mut Vec::new())
}

/// Build a crate node vector from the model AST (graph-builder route).
/// Each named definition becomes one node referenced by every `Ref`.
pub fn to_nodes(root: &MSchema) -> Vec<cs::SchemaNode> {
	fn logical_to_crate(l: &MLogical) -> cs::LogicalType {
		match l {
			MLogical::Decimal { precision, scale } => cs::LogicalType::Decimal(cs::Decimal::new(*scale, *precision)),
			MLogical::Uuid => cs::LogicalType::Uuid,
			MLogical::Date => cs::LogicalType::Date,
			MLogical::TimeMillis => cs::LogicalType::TimeMillis,
			MLogical::TimeMicros => cs::LogicalType::TimeMicros,
			MLogical::TimestampMillis => cs::LogicalType::TimestampMillis,
			MLogical::TimestampMicros => cs::LogicalType::TimestampMicros,
			MLogical::Duration => cs::LogicalType::Duration,
			MLogical::BigDecimal => cs::LogicalType::BigDecimal,
			MLogical::Unknown(s) => cs::LogicalType::Unknown(cs::UnknownLogicalType::new(s.clone())),
		}
	}
	fn go(s: &MSchema, nodes: &mut Vec<cs::SchemaNode>, names: &mut HashMap<String, usize>) -> usize {
		if let MType::Ref(n) = &s.ty {
			return *names.get(n).unwrap_or_else(|| panic!("model: forward ref {n} in to_nodes"));
		}
		let idx = nodes.len();
		nodes.push(cs::SchemaNode::new(cs::RegularType::Null));
		if let Some(n) = s.fullname() {
			names.insert(n.to_string(), idx);
		}
		let ty = match &s.ty {
			MType::Null => cs::RegularType::Null,
			MType::Boolean => cs::RegularType::Boolean,
			MType::Int => cs::RegularType::Int,
			MType::Long => cs::RegularType::Long,
			MType::Float => cs::RegularType::Float,
			MType::Double => cs::RegularType::Double,
			MType::Bytes => cs::RegularType::Bytes,
			MType::String => cs::RegularType::String,
			MType::Array(i) => cs::RegularType::Array(cs::Array::new(cs::SchemaKey::from_idx(go(i, nodes, names)))),
			MType::Map(v) => cs::RegularType::Map(cs::Map::new(cs::SchemaKey::from_idx(go(v, nodes, names)))),
			MType::Union(bs) => cs::RegularType::Union(cs::Union::new(bs.iter().map(|b| cs::SchemaKey::from_idx(go(b, nodes, names))).collect())),
			MType::Record { name, fields } => cs::RegularType::Record(cs::Record::new(
				cs::Name::from_fully_qualified_name(name.clone()),
				fields.iter().map(|(n, f)| cs::RecordField::new(n.clone(), cs::SchemaKey::from_idx(go(f, nodes, names)))).collect(),
			)),
			MType::Enum { name, symbols } => cs::RegularType::Enum(cs::Enum::new(cs::Name::from_fully_qualified_name(name.clone()), symbols.clone())),
			MType::Fixed { name, size } => cs::RegularType::Fixed(cs::Fixed::new(cs::Name::from_fully_qualified_name(name.clone()), *size)),
			MType::Ref(_) => unreachable!(),
		};
		nodes[idx] = match &s.logical {
			Some(l) => cs::SchemaNode::with_logical_type(ty, logical_to_crate(l)),
			None => cs::SchemaNode::new(ty),
		};
		idx
	}
	// pass 0: node indices of definitions (pre-order over non-Ref nodes), so that
	// forward references can be resolved
	fn index(s: &MSchema, next: &mut usize, names: &mut HashMap<String, usize>) {
		if let MType::Ref(_) = &s.ty {
			return;
		}
		let idx = *next;
		*next += 1;
		if let Some(n) = s.fullname() {
			names.insert(n.to_string(), idx);
		}
		match &s.ty {
			MType::Array(i) | MType::Map(i) => index(i, next, names),
			MType::Union(bs) => bs.iter().for_each(|b| index(b, next, names)),
			MType::Record { fields, .. } => fields.iter().for_each(|(_, f)| index(f, next, names)),
			_ => {}
		}
	}
	let mut names = HashMap::new();
	index(root, &mut 0, &mut names);
	let mut nodes = Vec::new();
	go(root, &mut nodes, &mut names);
	nodes
}

// ---------------------------------------------------------------------------
// Model JSON-schema reader with spec name resolution (used by C09, C20)
// ---------------------------------------------------------------------------

pub fn parse_json_schema(text: &str) -> Result<MSchema, String> {
	let v: serde_json::Value = serde_json::from_str(text).map_err(|e| format!("json: {e}"))?;
	// pass 1: collect definitions' fullnames (forward references are tolerated: the
	// crate documents support for them; the spec requires definition before use)
	let mut defined: HashSet<String> = HashSet::new();
	let r = parse_value(&v, None, &mut defined)?;
	check_refs(&r, &Env::new(&r))?;
	Ok(r)
}

fn check_refs(s: &MSchema, env: &Env) -> Result<(), String> {
	match &s.ty {
		MType::Ref(n) => {
			if env.defs.contains_key(n.as_str()) {
				Ok(())
			} else {
				Err(format!("unknown reference {n}"))
			}
		}
		MType::Array(i) | MType::Map(i) => check_refs(i, env),
		MType::Union(bs) => bs.iter().try_for_each(|b| check_refs(b, env)),
		MType::Record { fields, .. } => fields.iter().try_for_each(|(_, f)| check_refs(f, env)),
		_ => Ok(()),
	}
}

fn parse_value(v: &serde_json::Value, enclosing: Option<&str>, defined: &mut HashSet<String>) -> Result<MSchema, String> {
	use serde_json::Value as V;
	let prim = |w: &str| -> Option<MType> {
		Some(match w {
			"null" => MType::Null,
			"boolean" => MType::Boolean,
			"int" => MType::Int,
			"long" => MType::Long,
			"float" => MType::Float,
			"double" => MType::Double,
			"bytes" => MType::Bytes,
			"string" => MType::String,
			_ => return None,
		})
	};
	match v {
		V::String(w) => {
			if let Some(p) = prim(w) {
				return Ok(MSchema::plain(p));
			}
			// reference: dotted => fullname; else enclosing namespace
			let full = if let Some(i) = w.rfind('.') {
				let (ns, simple) = (&w[..i], &w[i + 1..]);
				if ns.is_empty() {
					simple.to_string()
				} else {
					format!("{ns}.{simple}")
				}
			} else {
				match enclosing {
					Some(ns) => format!("{ns}.{w}"),
					None => w.clone(),
				}
			};
			Ok(MSchema::plain(MType::Ref(full)))
		}
		V::Array(bs) => {
			let mut out = Vec::new();
			for b in bs {
				out.push(parse_value(b, enclosing, defined)?);
			}
			Ok(MSchema::plain(MType::Union(out)))
		}
		V::Object(o) => {
			let t = o.get("type").ok_or("missing type")?;
			let tw = t.as_str().ok_or("type is not a string")?;
			let logical = match o.get("logicalType") {
				Some(V::String(l)) => Some(match l.as_str() {
					"decimal" => {
						let precision = o.get("precision").and_then(|p| p.as_u64()).ok_or("decimal without precision")? as usize;
						let scale = match o.get("scale") {
							None => 0,
							Some(s) => s.as_u64().ok_or("bad scale")? as u32,
						};
						MLogical::Decimal { precision, scale }
					}
					"uuid" => MLogical::Uuid,
					"date" => MLogical::Date,
					"time-millis" => MLogical::TimeMillis,
					"time-micros" => MLogical::TimeMicros,
					"timestamp-millis" => MLogical::TimestampMillis,
					"timestamp-micros" => MLogical::TimestampMicros,
					"duration" => MLogical::Duration,
					"big-decimal" => MLogical::BigDecimal,
					other => MLogical::Unknown(other.to_string()),
				}),
				_ => None,
			};
			if let Some(p) = prim(tw) {
				return Ok(MSchema { ty: p, logical });
			}
			let named = |defined: &mut HashSet<String>| -> Result<(String, Option<String>), String> {
				let name = o.get("name").and_then(|n| n.as_str()).ok_or("missing name")?;
				let (ns, simple): (Option<String>, &str) = if let Some(i) = name.rfind('.') {
					let ns = &name[..i];
					(if ns.is_empty() { None } else { Some(ns.to_string()) }, &name[i + 1..])
				} else {
					match o.get("namespace") {
						Some(V::String(ns)) => (if ns.is_empty() { None } else { Some(ns.clone()) }, name),
						Some(_) => return Err("namespace not a string".into()),
						None => (enclosing.map(|s| s.to_string()), name),
					}
				};
				let full = match &ns {
					Some(ns) => format!("{ns}.{simple}"),
					None => simple.to_string(),
				};
				if !defined.insert(full.clone()) {
					return Err(format!("duplicate definition {full}"));
				}
				Ok((full, ns))
			};
			let ty = match tw {
				"array" => MType::Array(Box::new(parse_value(o.get("items").ok_or("missing items")?, enclosing, defined)?)),
				"map" => MType::Map(Box::new(parse_value(o.get("values").ok_or("missing values")?, enclosing, defined)?)),
				"record" | "error" => {
					let (full, ns) = named(defined)?;
					let fs = o.get("fields").and_then(|f| f.as_array()).ok_or("missing fields")?;
					let mut fields = Vec::new();
					for f in fs {
						let fname = f.get("name").and_then(|n| n.as_str()).ok_or("field without name")?;
						let ft = f.get("type").ok_or("field without type")?;
						fields.push((fname.to_string(), parse_value(ft, ns.as_deref(), defined)?));
					}
					MType::Record { name: full, fields }
				}
				"enum" => {
					let (full, _) = named(defined)?;
					let sy = o.get("symbols").and_then(|f| f.as_array()).ok_or("missing symbols")?;
					let mut symbols = Vec::new();
					for s in sy {
						symbols.push(s.as_str().ok_or("symbol not a string")?.to_string());
					}
					MType::Enum { name: full, symbols }
				}
				"fixed" => {
					let (full, _) = named(defined)?;
					let size = o.get("size").and_then(|s| s.as_u64()).ok_or("missing size")? as usize;
					MType::Fixed { name: full, size }
				}
				other => return Err(format!("unknown type word in object: {other}")),
			};
			Ok(MSchema { ty, logical })
		}
		_ => Err("schema must be string, array or object".into()),
	}
}

/// Re-key an AST so that the *first occurrence in document order* of each named
/// type is the full definition (normal form for comparing unfoldings).
pub fn normalize_first_occurrence(root: &MSchema) -> MSchema {
	let env = Env::new(root);
	fn go(s: &MSchema, env: &Env, seen: &mut HashSet<String>) -> MSchema {
		let target: &MSchema = match &s.ty {
			MType::Ref(n) => {
				if seen.contains(n) {
					return MSchema::plain(MType::Ref(n.clone()));
				}
				env.defs.get(n.as_str()).copied().expect("dangling")
			}
			_ => s,
		};
		if let Some(n) = target.fullname() {
			if !seen.insert(n.to_string()) {
				return MSchema::plain(MType::Ref(n.to_string()));
			}
		}
		let ty = match &target.ty {
			MType::Array(i) => MType::Array(Box::new(go(i, env, seen))),
			MType::Map(i) => MType::Map(Box::new(go(i, env, seen))),
			MType::Union(bs) => MType::Union(bs.iter().map(|b| go(b, env, seen)).collect()),
			MType::Record { name, fields } => MType::Record { name: name.clone(), fields: fields.iter().map(|(n, f)| (n.clone(), go(f, env, seen))).collect() },
			other => other.clone(),
		};
		MSchema { ty, logical: target.logical.clone() }
	}
	go(root, &env, &mut HashSet::new())
}

/// Validity rules of section 3.1 applied to an arbitrary AST (used on derived schemas)
pub fn validate(root: &MSchema) -> Result<(), String> {
	fn valid_name(n: &str) -> bool {
		let mut cs = n.chars();
		match cs.next() {
			Some(c) if c.is_ascii_alphabetic() || c == '_' => {}
			_ => return false,
		}
		cs.all(|c| c.is_ascii_alphanumeric() || c == '_')
	}
	fn go(s: &MSchema, defs: &mut HashSet<String>, env: &Env) -> Result<(), String> {
		if let Some(full) = match &s.ty {
			MType::Record { name, .. } | MType::Enum { name, .. } | MType::Fixed { name, .. } => Some(name),
			_ => None,
		} {
			if !defs.insert(full.clone()) {
				return Err(format!("duplicate fullname {full}"));
			}
			for part in full.split('.') {
				if !valid_name(part) {
					return Err(format!("invalid name component {part:?} in {full:?}"));
				}
			}
			let simple = split_fullname(full).1;
			if split_fullname(full).0.is_none() && ["null", "boolean", "int", "long", "float", "double", "bytes", "string"].contains(&simple) {
				return Err(format!("primitive type name used as name: {full}"));
			}
		}
		match &s.ty {
			MType::Array(i) | MType::Map(i) => go(i, defs, env),
			MType::Union(bs) => {
				if bs.is_empty() {
					// the specification does not forbid an empty union explicitly; not flagged
				}
				let mut words = HashSet::new();
				for b in bs {
					if matches!(b.ty, MType::Union(_)) {
						return Err("union directly inside union".into());
					}
					let rb = env.resolve(b);
					if matches!(rb.ty, MType::Union(_)) {
						return Err("union directly inside union".into());
					}
					let w = match rb.fullname() {
						Some(n) => format!("named:{n}"),
						None => underlying_type_word(rb).to_string(),
					};
					if !words.insert(w.clone()) {
						return Err(format!("union with duplicate branch type {w}"));
					}
					go(b, defs, env)?;
				}
				Ok(())
			}
			MType::Record { fields, .. } => {
				let mut names = HashSet::new();
				for (n, f) in fields {
					if !valid_name(n) {
						return Err(format!("invalid field name {n:?}"));
					}
					if !names.insert(n) {
						return Err(format!("duplicate field {n}"));
					}
					go(f, defs, env)?;
				}
				Ok(())
			}
			MType::Enum { symbols, .. } => {
				let mut names = HashSet::new();
				for sy in symbols {
					if !valid_name(sy) {
						return Err(format!("invalid symbol {sy:?}"));
					}
					if !names.insert(sy) {
						return Err(format!("duplicate symbol {sy}"));
					}
				}
				Ok(())
			}
			MType::Ref(n) => {
				if env.defs.contains_key(n.as_str()) {
					Ok(())
				} else {
					Err(format!("dangling reference {n}"))
				}
			}
			_ => Ok(()),
		}
	}
	let env = Env::new(root);
	go(root, &mut HashSet::new(), &env)
}
