#!/bin/bash
# C10: the same history interpreter under three engines:
#   native (functional oracle, proptest search with shrinking)  -> evidence base
#   AddressSanitizer build (nightly, -Zsanitizer=address)       -> memory errors become failures
#   Miri (Stacked Borrows + data race detector)                 -> UB in the unsafe schema/reader code
# Exit 0 held / 1 VIOLATION / 2 inconclusive.
set -u
TIER=${1:-quick}
V=/verif
SEED=${VERIF_SEED:-0}
W=$V/work/C10
mkdir -p $W
rc=0
# 1. native
$V/work/target/release/vcheck run C10 $TIER
r=$?; [ $r -gt $rc ] && rc=$r
[ $r -eq 1 ] && exit 1
if [ "$TIER" = "thorough" ]; then ASAN_N=20000; MIRI_N=125; else ASAN_N=250; MIRI_N=4; fi
[ -n "${VERIF_C10_MIRI_N:-}" ] && MIRI_N=$VERIF_C10_MIRI_N
# 2. ASan
( cd $V/harness && RUSTFLAGS="-Zsanitizer=address --cfg ten0_serde_avro_fast_verif" cargo +nightly build --release --target x86_64-unknown-linux-gnu --target-dir $V/work/target-asan --bin vmini 2> $W/asan-build.log ) || { echo "ASan build failed (inconclusive)"; tail -20 $W/asan-build.log; exit 2; }
pids=()
for i in $(seq 0 15); do
	ASAN_OPTIONS=detect_leaks=0:abort_on_error=1 $V/work/target-asan/x86_64-unknown-linux-gnu/release/vmini C10 $ASAN_N $((SEED*1000+i)) $W/asan-stats-$i.json > $W/asan-$i.log 2>&1 &
	pids+=($!)
done
asan_fail=0
for i in $(seq 0 15); do
	wait ${pids[$i]}; r=$?
	if [ $r -ne 0 ]; then
		asan_fail=1
		if grep -q "^VIOLATION" $W/asan-$i.log; then grep -A2 "^VIOLATION" $W/asan-$i.log; else
			# sanitizer report / abort: the failing tape is not known to vmini; report the log
			cp $W/asan-$i.log $W/violations-asan-report-$i.txt 2>/dev/null
			mkdir -p $W/violations; cp $W/asan-stats-$i.json.inflight.tape $W/violations/asan-report-$SEED-$i.tape 2>/dev/null
			echo "VIOLATION property=C10 replay=$W/violations/asan-report-$SEED-$i.tape"
			echo "  (replay under the detector: VERIF_ENGINE=asan ./check C10 --replay <tape>; report: $W/violations-asan-report-$i.txt)"
			echo "  signature: asan/report (seed $((SEED*1000+i)), $ASAN_N cases)"
			grep -m3 "ERROR: AddressSanitizer\|SUMMARY" $W/asan-$i.log
		fi
	fi
done
[ $asan_fail -ne 0 ] && rc=1
# 3. Miri
( cd $V/harness && cargo +nightly miri setup > $W/miri-setup.log 2>&1 ) || { echo "miri setup failed (inconclusive)"; tail -5 $W/miri-setup.log; exit 2; }
# (this first run also replays the committed corpus tapes under Miri)
( cd $V/harness && MIRIFLAGS="-Zmiri-disable-isolation -Zmiri-ignore-leaks" cargo +nightly miri run --target-dir $V/work/target-miri --bin vmini -- C10 0 0 $W/miri-stats-warm.json > $W/miri-build.log 2>&1 ) || {
	if grep -q "Undefined Behavior\|^VIOLATION" $W/miri-build.log; then
		if grep -q "^VIOLATION" $W/miri-build.log; then grep -A2 "^VIOLATION" $W/miri-build.log; else
			grep -v "^warning" $W/miri-build.log | grep -B2 -A25 "Undefined Behavior" > $W/violations-miri-report-warm.txt
			mkdir -p $W/violations; cp $W/miri-stats-warm.json.inflight.tape $W/violations/miri-report-corpus.tape 2>/dev/null
			echo "VIOLATION property=C10 replay=$W/violations/miri-report-corpus.tape"
			echo "  (replay under the detector: VERIF_ENGINE=miri ./check C10 --replay <tape>; report: $W/violations-miri-report-warm.txt)"
			echo "  signature: miri/undefined-behavior (corpus replay)"
			grep -m2 "Undefined Behavior" $W/miri-build.log
		fi
		exit 1
	fi
	echo "Miri build/run failed (inconclusive)"; tail -20 $W/miri-build.log; exit 2; }
pids=()
for i in $(seq 0 15); do
	( cd $V/harness && MIRIFLAGS="-Zmiri-disable-isolation -Zmiri-ignore-leaks -Zmiri-seed=$((SEED+i))" cargo +nightly miri run --target-dir $V/work/target-miri --bin vmini -- C10 $MIRI_N $((SEED*1000+500+i)) $W/miri-stats-$i.json > $W/miri-$i.log 2>&1 ) &
	pids+=($!)
done
miri_fail=0
for i in $(seq 0 15); do
	wait ${pids[$i]}; r=$?
	if [ $r -ne 0 ]; then
		miri_fail=1
		if grep -q "^VIOLATION" $W/miri-$i.log; then grep -A2 "^VIOLATION" $W/miri-$i.log; else
			grep -v "^warning" $W/miri-$i.log | grep -B2 -A25 "Undefined Behavior\|error:" > $W/violations-miri-report-$i.txt
			mkdir -p $W/violations; cp $W/miri-stats-$i.json.inflight.tape $W/violations/miri-report-$SEED-$i.tape 2>/dev/null
			echo "VIOLATION property=C10 replay=$W/violations/miri-report-$SEED-$i.tape"
			echo "  (replay under the detector: VERIF_ENGINE=miri ./check C10 --replay <tape>; report: $W/violations-miri-report-$i.txt)"
			echo "  signature: miri/report (vmini C10 $MIRI_N $((SEED*1000+500+i)) under Miri)"
			grep -m2 "Undefined Behavior\|error:" $W/violations-miri-report-$i.txt
		fi
	fi
done
[ $miri_fail -ne 0 ] && rc=1
python3 $V/tools/merge_c10.py $TIER $SEED
exit $rc
