#!/bin/bash
# C20: generated programs. A committed family (gen20/fixed) and fresh families generated from
# VERIF_SEED are compiled against /repo's working tree and run; each type of a family is checked
# by vh::gen20rt::check_type. Exit 0 held / 1 VIOLATION / 2 inconclusive.
set -u
TIER=${1:-quick}
V=/verif
SEED=${VERIF_SEED:-0}
W=$V/work/gen20
mkdir -p $W
START=$(date +%s.%N)
if [ "$TIER" = "thorough" ]; then NFAM=8; NTYPES=150; NVALUES=2000; else NFAM=1; NTYPES=60; NVALUES=200; fi
FAMS=("$V/gen20/fixed")
for i in $(seq 1 $NFAM); do
	d=$W/fresh_${SEED}_$i
	rm -rf $d
	$V/work/target/release/vgen20 $((SEED*100+i+1000)) $d fresh_${SEED}_$i $NTYPES > /dev/null || { echo "generator failed (inconclusive)"; exit 2; }
	FAMS+=("$d")
done
if [ -n "${VERIF_C20_FAMILY:-}" ]; then FAMS=("$VERIF_C20_FAMILY"); fi
rc=0
: > $W/results.list
for d in "${FAMS[@]}"; do
	name=$(grep -m1 '^name' $d/Cargo.toml | sed 's/.*"\(.*\)".*/\1/')
	( cd $d && cargo build --release 2> $W/build_$name.log ) || { echo "generated program $d does not compile: generator bug (inconclusive)"; grep -A12 "^error" $W/build_$name.log | head -40; exit 2; }
	timeout 1800 $V/work/target-gen20/release/$name $NVALUES $SEED $W/$name.json > $W/run_$name.log 2>&1
	r=$?
	if [ $r -ne 0 ] && [ $r -ne 1 ]; then echo "family $name crashed (exit $r):"; tail -5 $W/run_$name.log; fi
	echo "$d $W/$name.json $r" >> $W/results.list
done
END=$(date +%s.%N)
python3 $V/tools/merge_c20.py $TIER $SEED $(echo "$END - $START" | bc)
exit $?
