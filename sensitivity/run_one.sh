#!/bin/bash
# usage: sensitivity/run_one.sh <patch.diff> <ID> [tier]
# applies the patch to /repo, runs the check, reverts. Expects exit 1.
set -u
P=$1; ID=$2; TIER=${3:-quick}
cd /repo && git apply "$P" || { echo "patch does not apply"; exit 3; }
cd /verif && ./check $ID $TIER > /verif/work/sens_$ID.log 2>&1
rc=$?
cd /repo && git checkout -- . ; git -C /verif checkout -- evidence
echo "patch=$(basename $P) check=$ID exit=$rc $(grep -m1 'signature:' /verif/work/sens_$ID.log)"
exit 0
