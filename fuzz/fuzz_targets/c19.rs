#![no_main]
// libFuzzer entry for property C19: the input bytes are the entropy tape of the same
// decoder/oracle the proptest engine uses (harness/src/props/c19.rs).
libfuzzer_sys::fuzz_target!(|data: &[u8]| {
	vh::fuzzrt::run("C19", data);
});
