#![no_main]
// libFuzzer entry for property C08: the input bytes are the entropy tape of the same
// decoder/oracle the proptest engine uses (harness/src/props/c08.rs).
libfuzzer_sys::fuzz_target!(|data: &[u8]| {
	vh::fuzzrt::run("C08", data);
});
