#![no_main]
// libFuzzer entry for property C02: the input bytes are the entropy tape of the same
// decoder/oracle the proptest engine uses (harness/src/props/c02.rs).
libfuzzer_sys::fuzz_target!(|data: &[u8]| {
	vh::fuzzrt::run("C02", data);
});
