#!/usr/bin/env python3
"""Fills the tables of DESIGN.md section 9 from seeded/RESULTS.tsv and seeded/*/meta.json.
Idempotent: the tables live between <!-- BEGIN x --> / <!-- END x --> markers."""
import csv, json, os, re
rows = list({r['patch']: r for r in csv.DictReader(open('/verif/seeded/RESULTS.tsv'), delimiter='\t')}.values())
seeded, sens = [], []
for r in rows:
    p = r['patch']
    det = f"{r['property']} exit {r['exit']}" + (f" `{r['first signature']}`" if r['first signature'] else '')
    if p.startswith('seeded/'):
        name = [x for x in p.split('/') if x][1]
        meta = json.load(open(f'/verif/seeded/{name}/meta.json'))
        extra = [f"{k} `{v.get('first_signature','')}`" for k, v in meta.get('checks_run_against_it', {}).items() if k != r['property'] and v.get('exit') == 1]
        seeded.append(f"| {name} | {meta['change']} | {det}{'; also ' + ', '.join(extra) if extra else ''} |")
    else:
        sens.append(f"| `{os.path.basename(p)[:-5]}` | {r['property']} | exit {r['exit']}" + (f" `{r['first signature']}`" if r['first signature'] else '') + " |")
s = open('/verif/DESIGN.md').read()
HEAD = {'SEEDED_TABLE': "| Change | What it breaks | Detected by (first signature) |\n|---|---|---|\n",
        'SENS_TABLE': "| Patch | Property | Detected (first signature) |\n|---|---|---|\n"}
def put(tag, lines):
    global s
    block = f"<!-- BEGIN {tag} -->\n\n" + HEAD[tag] + "\n".join(lines) + "\n" + f"\n<!-- END {tag} -->"
    if f"@@{tag}@@" in s:
        s = s.replace(f"@@{tag}@@", block)
    else:
        s = re.sub(rf"<!-- BEGIN {tag} -->.*?<!-- END {tag} -->", lambda m: block, s, flags=re.S)
put('SEEDED_TABLE', seeded)
put('SENS_TABLE', sens)
open('/verif/DESIGN.md', 'w').write(s)
missed = [r for r in rows if r['exit'] != '1']
print(f"{len(rows)} rows, {len(missed)} not detected")
for r in missed: print("  ", r)
