#!/bin/bash
# tools/seed_run_checks.sh <patch.diff> <ID> [<ID>...]
# Applies a seeded change to /repo, runs the given checks (quick tier), undoes the change.
# Prints "<ID> exit=<rc> <first signature>" per check.
set -u
PATCH=$1; shift
git -C /repo apply "$PATCH" || { echo "patch does not apply to /repo"; exit 3; }
for ID in "$@"; do
	/verif/check $ID ${VERIF_TIER:-quick} > /verif/work/seedrun_$ID.log 2>&1
	rc=$?
	echo "$ID exit=$rc $(grep -m1 'signature:' /verif/work/seedrun_$ID.log | sed 's/^ *//')"
done
git -C /repo checkout -- .
git -C /verif checkout -- evidence
