#!/usr/bin/env python3
"""Writes seeded/<name>/meta.json from the confirmation summaries and the check runs.
usage: seed_meta.py <summary.txt> <checks.txt>"""
import json, re, sys, os
NEEDS = {
 "C01-1": ("by-name union selection: time-micros branch registered under the name 'TimeMillis'", "a union holding a time-micros branch next to time-millis/long, value presented by branch name"),
 "C01-2": ("ReaderRead::read_slice slow path reads into the whole (ever-growing) scratch buffer", "reader input in small chunks, two length-delimited values straddling refills, the second shorter than the first"),
 "C01-3": ("decimal serializer truncation helper: unscaled -1 written as empty bytes", "rust_decimal value whose unscaled value is exactly -1 on a bytes decimal / big-decimal"),
 "C01-4": ("type-directed union lookup: Conflict arm comparison flipped", "union of >=3 branches where two tie at a worse priority before the natural target"),
 "C03-1": ("block header: negative-count block rejected when count exceeds byte size", "array of zero-byte items written with a negative count + byte size"),
 "C03-2": ("ReaderRead::read_slice slow path over-reads into the whole scratch buffer", "reader input; a shorter straddling value after a longer straddling value"),
 "C05-1": ("finish_block decides on buffer emptiness instead of element count", "values that encode to zero bytes (null, empty record)"),
 "C05-2": ("deflate encoder: total_in baseline hoisted out of the growth loop", "deflate block compressing to more than the 32 KiB output buffer"),
 "C09-1": ("JSON regeneration: fields of a null-namespace record inherit the outer namespace", "three levels: record in ns, null-namespace record inside, named type of ns below it"),
 "C09-2": ("LogicalType::as_str: TimestampMicros rendered as timestamp-millis", "built/edited schema containing timestamp-micros (fingerprint unaffected)"),
 "C11-1": ("decimal read uses a single read() instead of read_exact", "decimal bytes straddling a reader refill boundary"),
 "C11-2": ("ReaderRead::read_slice slow path uses the whole scratch buffer", "reader input; shorter straddling value after a longer one"),
 "C13-1": ("omitted nullable field: null discriminant written as a raw byte instead of a varint", "omitted field whose union has null not in first position"),
 "C13-2": ("KindRecord::drop no longer clears pending buffers", "a rejected record with a buffered out-of-order field, then another out-of-order record on the same config"),
 "C15-1": ("finish_block decides on buffer emptiness instead of element count", "zero-byte values: they never reach the sink"),
 "C15-2": ("deflate encoder does not advance its input when the output buffer grows", "deflate block compressing to more than 32 KiB"),
 "C15-3": ("KindRecord::drop loses v.clear()", "failed out-of-order record then a later reordered record"),
 "C17-1": ("reader state set to Broken only after the block header is read", "truncation inside a block header varint, or a corrupted count/size, and calling again after the error"),
 "C17-2": ("leftover block bytes skipped instead of rejected (reader path), skip loop never ends at EOF", "object count corrupted downward, or size enlarged past end of file"),
 "C02-1": ("union lookup: Conflict state replaced on equal priority", "an odd number (>=3) of equally suitable branches, type-directed presentation"),
 "C02-2": ("duplicate detection dropped for buffered out-of-order fields", "map presentation where both occurrences of a key arrive before the schema's preceding fields"),
 "C04-1": ("max_seq_size counter overwritten per block instead of accumulated", "array/map in >=3 blocks whose total exceeds the limit while no two consecutive blocks do"),
 "C04-2": ("depth not decremented for records (deserialize_any) nor for ignored arrays/maps", "schema recursing through an array/map, field skipped by the target"),
 "C04-3": ("decimal sign check indexes buf[start] unconditionally", "zero-length decimal (datum [0] on bytes decimal)"),
 "C06-1": ("deflate writer: input advanced by total_in instead of written", "single block compressing to more than 64 KiB"),
 "C06-2": ("avro.codec default dropped from the header struct", "file without avro.codec (spec-allowed)"),
 "C06-3": ("block element count incremented before the value is serialized", "a failing serialize followed by further use"),
 "C07-1": ("explicit empty namespace falls back to the enclosing namespace", "named type with \"namespace\": \"\" nested inside a non-null namespace"),
 "C07-2": ("cycle check stops scanning a record's fields at the first non-record field", "unconditional cycle edge located after a non-record field"),
 "C12-1": ("ignored fast path treats fixed-backed decimals as length-delimited", "fixed decimal in an ignored position followed by more data"),
 "C12-2": ("ReaderRead::skip_bytes slow path skips n instead of n - buffered", "reader input, ignored array/map, negative-count block larger than the current buffer"),
 "C14-1": ("buffered byte-sequence buffer only cleared on success", "failing serialize_seq(None) to bytes, then reuse of the config"),
 "C14-2": ("failed out-of-order field's side buffer returned to the pool uncleared", "out-of-order compound field failing after writing >=1 byte, then reuse"),
 "C16-1": ("write_all_vectored: the amount written is applied at the top of the loop and not reset on Interrupted", "an Interrupted directly after a partial write, during a block flush"),
 "C16-2": ("write_all_vectored finishes the last slice with write_all of the ORIGINAL last slice", "a vectored sink whose partial write ends strictly inside the sync marker"),
 "C18-1": ("from_single_object_slice requires more than 10 bytes", "a message of exactly 10 bytes (zero-byte datum) through the slice entry point"),
 "C18-2": ("to_single_object writes the fingerprint with write instead of write_all", "a writer accepting fewer than 8 bytes per call"),
 "C18-3": ("canonical form: repeated enums written in full again", "a schema using the same enum at least twice"),
 "C19-1": ("cycle check consults visited_nodes instead of checked_nodes (shortcut never applies)", "records referenced twice per level: exponential parse time"),
 "C19-2": ("canonical form generation counter bumped also for references", "builder graph with an unnamed cycle and a named type reachable from it: stack overflow"),
 "C08-1": ("canonical form: repeated enums never written by name", "a schema where the same enum occurs at least twice"),
 "C08-2": ("memoised fingerprint in SchemaMut not reset by nodes_mut()", "fingerprint, edit through nodes_mut(), fingerprint/freeze again"),
 "C08-3": ("definition-site name split keeps an empty namespace for \".Leaf\"", "a definition spelled with a leading-dot name"),
 "C10-1": ("key_to_ref bound check off by one (idx > len)", "SchemaKey equal to nodes.len() in a union not reachable from the root: out-of-bounds dereference while building the lookup table"),
 "C10-2": ("node vector created with with_capacity + set_len, slots written with ptr::write", "freeze error path (out-of-bounds key in an unreachable node): uninitialised nodes dropped"),
 "C20-1": ("derive: time-micros coerced to int instead of long", "a time-micros field and a value outside the i32 range"),
 "C20-2": ("derive: generic TypeId hash appended after the fields are built", "generic struct owning a named sub-schema, two instantiations in one schema"),
}
summ = {}
for f in sys.argv[1:]:
    if not os.path.exists(f): continue
    for line in open(f):
        m = re.match(r"(C\d\d-\d) demo_on_clean_tree=(\d+) suite_with_change=(\d+) demo_with_change=(\d+) => (\w+)", line)
        if m: summ[m.group(1)] = m.groups()[1:]
checks = {}
cur = None
for f in ["/tmp/sv/checks.txt", "/tmp/sv/checks2.txt", "/tmp/sv/checks3.txt", "/tmp/sv/checks4.txt", "/tmp/sv/checks_extra.txt", "/tmp/sv/checks_extra2.txt", "/tmp/sv/checks5.txt", "/tmp/sv/checks6.txt", "/tmp/sv/checks7.txt"]:
    if not os.path.exists(f): continue
    for line in open(f):
        line = line.strip()
        if line.startswith("== "): cur = line[3:]
        else:
            m = re.match(r"(C\d\d) exit=(\d+) ?(.*)", line)
            if m and cur: checks.setdefault(cur, {})[m.group(1)] = {"exit": int(m.group(2)), "first_signature": m.group(3).replace("signature: ", "")}
for name, (a, b, c, verdict) in summ.items():
    d = f"/verif/seeded/{name}"
    if not os.path.isdir(d): continue
    what, needs = NEEDS.get(name, ("see notes.md", "see notes.md"))
    meta = {
        "property": name.split("-")[0], "change": what, "needs_to_manifest": needs,
        "origin": "written by an independent sub-agent given only the property text and a scratch worktree of /repo",
        "confirmed": {"verdict": verdict, "demo_passes_on_unmodified_tree": a == "0", "existing_suite_passes_with_change": b == "0", "demo_fails_with_change": c != "0",
                      "how": "tools/seed_verify.sh <name> patch.diff demo.rs (scratch worktree under /tmp/sv, cargo test --workspace --offline, demo as serde_avro_fast/tests/seeddemo.rs with --all-features)"},
        "checks_run_against_it": checks.get(name, {}),
        "how_run": "tools/seed_run_checks.sh patch.diff <ID> (git -C /repo apply; ./check <ID> quick; git -C /repo checkout -- .)",
    }
    json.dump(meta, open(f"{d}/meta.json", "w"), indent=1)
print("meta written for", len(summ))
