#!/bin/bash
# tools/seed_verify.sh <name> <patch.diff> <demo.rs> [crate-subdir]
# Confirms a seeded change in a scratch worktree of /repo: (1) the demo passes on the unmodified tree,
# (2) with the change the crate compiles and the whole existing suite passes, (3) the demo fails with the change.
# Prints one summary line; details in /tmp/sv/<name>.log. The worktree is removed afterwards.
set -u
NAME=$1; PATCH=$2; DEMO=$3; SUB=${4:-serde_avro_fast}
WT=/tmp/sv/$NAME
LOG=/tmp/sv/$NAME.log
mkdir -p /tmp/sv
rm -rf $WT; git -C /repo worktree prune
git -C /repo worktree add -q --detach $WT HEAD || { echo "$NAME worktree-failed"; exit 3; }
export CARGO_TARGET_DIR=/tmp/sv/target CARGO_NET_OFFLINE=true
cd $WT
: > $LOG
cp $DEMO $WT/$SUB/tests/seeddemo.rs
# the demos of the derive crate may need serde deps that are dev-deps there already
FEAT=""; [ "$SUB" = "serde_avro_fast" ] && FEAT="--all-features"
PKG="-p $SUB"; [ "$SUB" = "serde_avro_derive" ] && PKG="--workspace"   # serde's derive feature comes from workspace feature unification
cargo test --offline $PKG $FEAT --test seeddemo >> $LOG 2>&1; demo_clean=$?
rm $WT/$SUB/tests/seeddemo.rs
git apply $PATCH >> $LOG 2>&1 || { echo "$NAME patch-does-not-apply"; git -C /repo worktree remove --force $WT; exit 3; }
cargo test --workspace --no-fail-fast --offline >> $LOG 2>&1; suite=$?
cp $DEMO $WT/$SUB/tests/seeddemo.rs
cargo test --offline $PKG $FEAT --test seeddemo >> $LOG 2>&1; demo_patched=$?
cd /; git -C /repo worktree remove --force $WT
verdict=REJECT
[ $demo_clean -eq 0 ] && [ $suite -eq 0 ] && [ $demo_patched -ne 0 ] && verdict=CONFIRMED
echo "$NAME demo_on_clean_tree=$demo_clean suite_with_change=$suite demo_with_change=$demo_patched => $verdict"
