#!/usr/bin/env python3
"""Collect the reports of C20's generated families, apply known findings, write evidence/C20.json."""
import json, sys, os
V = "/verif"
tier, seed, wall = sys.argv[1], int(sys.argv[2]), float(sys.argv[3])
known = []
for line in open(f"{V}/known_findings.txt"):
    line = line.strip()
    if line.startswith("known:"):
        parts = line[6:].strip().split(" ", 2)
        d = dict(p.split("=", 1) for p in parts[:2] if "=" in p)
        if d.get("property") == "C20":
            known.append((d.get("signature"), parts[2] if len(parts) > 2 else ""))
tot = {"types": 0, "nontrivial_types": 0, "values": 0}
labels, samples, programs = {}, [], []
violations, known_hits, crashed = [], {}, []
for line in open(f"{V}/work/gen20/results.list"):
    d, out, r = line.split()
    programs.append(d)
    if not os.path.exists(out):
        crashed.append((d, r))
        continue
    rep = json.load(open(out))
    for k in tot:
        tot[k] += rep[k]
    for k, v in rep["labels"].items():
        labels[k] = labels.get(k, 0) + v
    samples += rep["samples"][:3]
    for v in rep["violations"]:
        if any(v["sig"] == k for k, _ in known):
            known_hits[v["sig"]] = known_hits.get(v["sig"], 0) + 1
        else:
            violations.append((d, v["sig"], v["detail"]))
    if int(r) not in (0, 1):
        crashed.append((d, r))
for sig, n in known_hits.items():
    text = next(t for k, t in known if k == sig)
    print(f"KNOWN-FINDING: property=C20 signature={sig} hits={n} {text}")
ev = {
    "property_id": "C20", "tier": tier, "seed": seed, "level": "exploration",
    "coverage": {
        "evaluations": tot["types"],
        "distinct_nontrivial": tot["nontrivial_types"],
        "rule": "case = one generated type definition (named struct, newtype struct incl. over byte arrays and with logical-type attributes, unit-only enum, union enum of newtype variants + at most one unit variant with serde names equal to the Avro branch names, fields of Option / Vec / BTreeMap / HashMap / Box / Rc / Arc / serde_bytes byte arrays and vectors / integers i8..u64 / floats / bool / String / &str, recursion through Option<Box<_>> and Vec<_>, generic structs instantiated several times, namespace and name overrides with matching serde renames, modules nested two deep) inside a generated program (family) compiled against the working tree; per type: schema() Ok, deterministic, JSON re-parses to the same fingerprint, valid per the reference reader and validity rules, pairwise distinct fullnames in the node graph, and for each generated value: serialises, bytes decode under the reference strict decoder of the derived schema, deserialises to an equal value, re-serialises identically, plus a container-file round trip for a subset; non-trivial = the type contains a union enum, a generic instantiated twice, recursion or a logical type; every generated type is distinct by construction (families come from different seeds)",
        "samples": samples[:8] or ["no sample"],
        "programs": len(programs),
        "program_dirs": programs,
        "values_checked": tot["values"],
        "label_histogram": labels,
        "known_finding_hits": known_hits,
        "engine": "program generator harness/src/gen20.rs (xorshift tapes from VERIF_SEED) + per-type oracle harness/src/gen20rt.rs; one committed family (gen20/fixed) and fresh families",
    },
    "assumptions": ["only shapes the statement lists are generated; unsigned values stay within the range of the Avro type they map to; float values exclude NaN (PartialEq)", "Option<Option<T>> / Option<union enum> (union directly inside a union) is a separately labelled class"],
    "wall_s": wall, "violations": len(violations),
}
os.makedirs(f"{V}/evidence", exist_ok=True)
json.dump(ev, open(f"{V}/evidence/C20.json", "w"), indent=1)
print(f"C20 {tier}: programs={len(programs)} types={tot['types']} nontrivial={tot['nontrivial_types']} values={tot['values']} wall={wall:.1f}s")
for d, sig, det in violations[:10]:
    print(f"VIOLATION property=C20 replay={d}")
    print(f"  signature: {sig}")
    print(f"  detail: {det[:1500]}")
if violations:
    sys.exit(1)
if crashed:
    for d, r in crashed:
        print(f"VIOLATION property=C20 replay={d}")
        print(f"  signature: abort/exit-{r} (generated program died)")
    sys.exit(1)
sys.exit(0)
