#!/usr/bin/env python3
"""Adds the libFuzzer campaign's statistics to evidence/<ID>.json (written by the proptest engine)."""
import json, sys
i, runs, corpus, wall = sys.argv[1], int(sys.argv[2]), int(sys.argv[3]), int(sys.argv[4])
p = f"/verif/evidence/{i}.json"
ev = json.load(open(p))
cov = ev["coverage"]
cov.setdefault("engines", {})["proptest"] = {"evaluations": cov["evaluations"]}
cov["engines"]["libfuzzer_asan"] = {"executions": runs, "jobs": 16, "corpus_units": corpus, "wall_s": wall}
cov["evaluations"] = cov["evaluations"] + runs
cov["engine"] = cov.get("engine", "") + " + cargo-fuzz/libFuzzer (AddressSanitizer) on the same tape decoder and oracle"
ev["wall_s"] = ev.get("wall_s", 0) + wall
json.dump(ev, open(p, "w"), indent=1)
