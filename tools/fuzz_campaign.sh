#!/bin/bash
# tools/fuzz_campaign.sh <ID> <runs per job> <seed>: libFuzzer campaign (16 jobs) for one property.
# The input of the target is the entropy tape of harness/src/props/<id>.rs; a violation aborts the
# target, the saved artifact is re-checked natively (./check <ID> --replay) before it is reported.
set -u
ID=$1; RUNS=$2; SEED=$3
V=/verif
T=$(echo $ID | tr A-Z a-z)
# per-execution cost under ASan differs by orders of magnitude (C17 drives hostile counts, C13 presents
# up to 5! field orders per case): scale the fixed run count, and cap the wall time (a cap only ends the
# exploration early; it is never reported as a violation)
case $ID in C11|C18) RUNS=$((RUNS/8));; C13) RUNS=$((RUNS/20));; C17) RUNS=$((RUNS/200));; esac
[ $RUNS -lt 50 ] && RUNS=50
export CARGO_NET_OFFLINE=true RUSTFLAGS="--cfg ten0_serde_avro_fast_verif"
START=$(date +%s)
cargo +nightly fuzz build --fuzz-dir $V/fuzz $T > $V/work/fuzz-build-$T.log 2>&1 || { echo "fuzz build failed (inconclusive)"; tail -20 $V/work/fuzz-build-$T.log; exit 2; }
CORPUS=$V/work/fuzz-corpus/$ID
rm -rf $CORPUS $V/work/fuzz-artifacts/$ID
mkdir -p $CORPUS $V/work/fuzz-artifacts/$ID
MAXLEN=$($V/work/target/release/vcheck maxtape $ID 2>/dev/null || echo 700)
# deterministic seed corpus: the committed regression tapes plus pseudo-random tapes of several lengths
cp $V/corpus/$ID/*.tape $CORPUS/ 2>/dev/null
python3 - "$CORPUS" "$SEED" "$MAXLEN" <<'PY'
import random, sys
d, seed, maxlen = sys.argv[1], int(sys.argv[2]), int(sys.argv[3])
random.seed(seed * 7919 + 13)
for i in range(96):
    n = random.choice([0, 4, 16, 48, 96, 160, 256, 400, maxlen])
    open(f"{d}/rand-{seed}-{i:02d}", "wb").write(bytes(random.getrandbits(8) for _ in range(min(n, maxlen))))
PY
BIN=$V/fuzz/target/x86_64-unknown-linux-gnu/release/$T
( cd $V/work/fuzz-artifacts/$ID && ASAN_OPTIONS=detect_odr_violation=0:detect_leaks=0 $BIN $CORPUS -runs=$RUNS -seed=$((SEED+1)) -max_len=$MAXLEN -len_control=0 -timeout=300 -max_total_time=${VERIF_FUZZ_MAX_S:-2400} -rss_limit_mb=8192 -jobs=16 -workers=16 -artifact_prefix=$V/work/fuzz-artifacts/$ID/ > $V/work/fuzz-$T.log 2>&1 )
frc=$?
END=$(date +%s)
DONE=$(grep -h "^Done" $V/work/fuzz-artifacts/$ID/fuzz-*.log 2>/dev/null | awk '{s+=$2} END {print s+0}')
python3 $V/tools/merge_fuzz.py $ID $DONE $(ls $CORPUS | wc -l) $((END-START))
arts=$(ls $V/work/fuzz-artifacts/$ID/crash-* $V/work/fuzz-artifacts/$ID/oom-* $V/work/fuzz-artifacts/$ID/timeout-* 2>/dev/null)
rc=0
for a in $arts; do
	case "$a" in
		*timeout-*|*oom-*)
			# the sanitizer build's watchdog: never a violation by itself. Re-run natively; a case that also
			# exceeds the native limit is inconclusive (exit 2), a case that completes is only reported.
			timeout 300 $V/work/target/release/vcheck replay $ID $a > $V/work/fuzz-replay.log 2>&1; r=$?
			if [ $r -eq 0 ]; then echo "note: $a exceeded the ASan build's per-case watchdog; native replay holds"
			elif [ $r -eq 1 ]; then grep -A2 "^VIOLATION" $V/work/fuzz-replay.log | head -6; rc=1
			else echo "libFuzzer $a (watchdog/oom, native replay exit $r): inconclusive"; [ $rc -eq 0 ] && rc=2; fi;;
		*)
			if $V/work/target/release/vcheck replay $ID $a > $V/work/fuzz-replay.log 2>&1; then
				# the native replay holds: a sanitizer report or a crash only visible under ASan
				echo "VIOLATION property=$ID replay=$a"
				echo "  signature: libfuzzer/asan-or-crash (native replay holds; see $V/work/fuzz-artifacts/$ID/fuzz-*.log)"
			else
				grep -A2 "^VIOLATION" $V/work/fuzz-replay.log | head -6
			fi
			rc=1;;
	esac
done
echo "$ID libFuzzer: runs=$DONE corpus=$(ls $CORPUS | wc -l) artifacts=$(echo $arts | wc -w) wall=$((END-START))s"
exit $rc
