#!/usr/bin/env python3
"""Merge the ASan and Miri engine statistics into evidence/C10.json (written by the native engine)."""
import json, sys, glob
V = "/verif"
ev = json.load(open(f"{V}/evidence/C10.json"))
cov = ev["coverage"]
engines = {"native_proptest": {"evaluations": cov["evaluations"], "distinct_nontrivial": cov["distinct_nontrivial"]}}
for name in ("asan", "miri"):
    tot = {"evaluations": 0, "distinct_nontrivial": 0, "processes": 0, "violations": 0}
    labels = {}
    sample = None
    for f in sorted(glob.glob(f"{V}/work/C10/{name}-stats-[0-9]*.json")):
        try:
            s = json.load(open(f))
        except Exception:
            continue
        tot["evaluations"] += s["evaluations"]
        tot["distinct_nontrivial"] += s["distinct_nontrivial"]
        tot["processes"] += 1
        tot["violations"] += len(s["violations"])
        for k, v in s["labels"].items():
            labels[k] = labels.get(k, 0) + v
        sample = sample or s.get("sample")
    tot["labels"] = labels
    tot["sample"] = sample
    engines[name] = tot
cov["engines"] = engines
cov["evaluations"] = sum(e["evaluations"] for e in engines.values())
cov["engine"] = "history interpreter harness/src/props/c10.rs: proptest (native, functional oracle) + the same interpreter on xorshift tapes under AddressSanitizer and under Miri"
if engines["miri"]["sample"]:
    cov["samples"].append({"engine": "miri", **engines["miri"]["sample"]})
json.dump(ev, open(f"{V}/evidence/C10.json", "w"), indent=1)
print("C10 engines:", {k: v["evaluations"] for k, v in engines.items()})
