#!/bin/bash
# tools/seeded_suite.sh [filter]: regression of the machinery against every recorded breaking change:
#   seeded/<name>/patch.diff            (independent sub-agents; property from meta.json)
#   sensitivity/patches/cNN-*.diff      (hand-written mutants; property from the file name)
#   sensitivity/patches/revert-<c>-*    (reverse patch of fix commit <c>; property from known_findings.txt)
# Each patch is applied to /repo's working tree (never committed), the property's quick check is run,
# the tree is restored. Expected: exit 1 for every row. Writes seeded/RESULTS.tsv.
set -u
cd /verif
F=${1:-}
OUT=seeded/RESULTS.tsv
[ -z "$F" ] && printf "patch\tproperty\texit\tfirst signature\twall_s\n" > $OUT
[ -n "$(git -C /repo status --porcelain)" ] && { echo "/repo working tree is not clean"; exit 3; }
run() { # patch id
	local p=$1 id=$2 s=$(date +%s)
	git -C /repo apply "$p" || { printf "%s\t%s\tpatch-does-not-apply\t\t0\n" "$p" "$id" >> $OUT; return; }
	VERIF_SEED=${VERIF_SEED:-0} ./check $id quick > work/suite.log 2>&1; local rc=$?
	git -C /repo checkout -- .
	local sig=$(grep -m1 "signature:" work/suite.log | sed 's/.*signature: //')
	printf "%s\t%s\t%s\t%s\t%s\n" "${p#/verif/}" "$id" "$rc" "$sig" "$(( $(date +%s)-s ))" | tee -a $OUT
}
for d in seeded/*/; do [ -f $d/meta.json ] || continue
	n=$(basename $d); case "$n" in *$F*) ;; *) continue;; esac
	id=$(jq -r .property $d/meta.json)
	run /verif/$d/patch.diff $id
done
for p in sensitivity/patches/c[0-9][0-9]-*.diff; do
	case "$p" in *$F*) ;; *) continue;; esac
	id=$(basename $p | cut -c1-3 | tr c C)
	run /verif/$p $id
done
for p in sensitivity/patches/revert-*.diff; do
	case "$p" in *$F*) ;; *) continue;; esac
	c=$(basename $p | cut -d- -f2)
	id=$(grep "^fixed:" known_findings.txt | grep " $c " | sed 's/.*property=\(C[0-9]*\).*/\1/' | head -1)
	[ -z "$id" ] && { echo "no fixed: entry for $c"; continue; }
	run /verif/$p $id
done
# the runs above overwrote evidence/<id>.json with the (violating) runs' records: restore the committed ones
git -C /verif checkout -- evidence
