#!/usr/bin/env python3
"""Regenerates /verif/MANIFEST.json from the table below and the list of
properties the harness actually registers (vcheck list)."""
import json, subprocess, os
V = "/verif"
props = [json.loads(l) for l in open(f"{V}/properties.jsonl")]
ids = [p["id"] for p in props]
try:
    built = subprocess.run([f"{V}/work/target/release/vcheck", "list"], capture_output=True, text=True).stdout.split()
except Exception:
    built = []
extra = [f[:-3] for f in os.listdir(f"{V}/checks")] if os.path.isdir(f"{V}/checks") else []
built = sorted(set(built) | set(e for e in extra if e in ids))

META = json.load(open(f"{V}/tools/manifest_meta.json"))
checks = []
for i in ids:
    if i not in built or i not in META:
        continue
    m = META[i]
    checks.append({
        "property_id": i,
        "quick_cmd": f"./check {i} quick",
        "thorough_cmd": f"./check {i} thorough",
        "evidence_file": f"/verif/evidence/{i}.json",
        "replay_cmd_template": f"./check {i} --replay {{path}}",
        "engine": m.get("engine", "vh"),
        "level_claimed": {"category": m["level"], "text": m["text"], "design_ref": m.get("design_ref", f"DESIGN.md section 5, {i}")},
        "level_note": m["note"],
        "technique": m["technique"],
    })
na = [{"property_id": i, "reason": "check not built yet at this commit (work in progress; every property is intended to be claimed with property-based testing / fuzzing)"} for i in ids if i not in [c["property_id"] for c in checks]]
man = {
    "version": 1,
    "setup_cmd": "./check setup",
    "hooks": {
        "guard": "ten0_serde_avro_fast_verif",
        "enable": "RUSTFLAGS=--cfg ten0_serde_avro_fast_verif (harness/.cargo/config.toml [build] rustflags; checks/C10.sh passes it explicitly to the ASan build). Hook: schema::verif_hooks step counter (reset_steps/steps) used by C19.",
        "baseline_off_cmd": "cd /repo && cargo test --workspace --no-fail-fast --offline",
        "source_commits": ["f6db54a"],
        "add_only": True,
    },
    "engines": [
        {"name": "vh", "path": "harness/", "serves_properties": [c["property_id"] for c in checks],
         "kind_free_text": "Rust crate (+ cargo-fuzz targets in fuzz/ for 15 properties): reference Avro model (schema AST, spellings, PCF, bit-serial CRC-64-AVRO, layout-complete encoder, strict decoder, container writer/parser), serde presentations and capture, I/O doubles; proptest TestRunner over entropy tapes in worker sub-processes, corpus replay, shrinking, evidence"},
    ],
    "checks": checks,
    "not_applicable": na,
    "notes": "All commands go through ./check (exit 0 held / 1 VIOLATION / 2 inconclusive). VERIF_SEED selects the PRNG seed; VERIF_CASES overrides the case count; VERIF_FUZZ_RUNS the libFuzzer runs per job of the thorough tier (VERIF_NO_FUZZ=1 skips it); known findings live in known_findings.txt.",
}
json.dump(man, open(f"{V}/MANIFEST.json", "w"), indent=1)
print("claimed:", [c["property_id"] for c in checks])
